"""The common engine of the encoding properties (C01-C06, C08-C10).

For a family of problems:
  1. TLC (MC_Timeline) enumerates V(P) for every P, checking the property invariants on the
     specification on the way;
  2. for every P the real library is built from the same description and
       - soundness    : assertions AND projection not in V(P)  (one z3 query, witnesses blocked
                        and repeated) -- every witness is reproduced through the public API
                        (pin + solve()) and the returned solution becomes a trace;
       - completeness : every v in V_must(P) is pinned, the assertions must stay satisfiable;
       - the default solve() (and further configurations) give more solutions -> traces;
       - indicator variables must equal the specification's value on every pinned schedule;
  3. TLC (TimelineTrace) validates every trace; a rejection names the failing guard clause.
"""
from __future__ import annotations

import json
import multiprocessing as mp
import os
import random
import sys
import time
import traceback

sys.path.insert(0, os.path.dirname(os.path.abspath(__file__)))

import tlc  # noqa: E402

_FAMILY = None


def _work(idx):
    """Runs in a forked worker: everything that touches the real library for one problem."""
    import z3
    import admitted as A
    import build as B
    import project as PJ
    p, V, opts = _FAMILY[idx]
    out = {"id": p["id"], "witnesses": [], "lost": [], "ind_bad": [], "inconclusive": 0,
           "traces": [], "checked_pins": 0, "checked_inds": 0, "errors": [], "default": None,
           "replayed": 0, "replay_mismatch": [], "buf_bad": [], "checked_bufs": 0, "outside_window": 0}
    opts = dict(opts, **p.get("_opts", {}))
    try:
        for hp in opts.get("history", []):
            # unrelated problems built and solved earlier in the same interpreter (C14)
            hb = B.build(hp)
            hs = B.make_solver(hb, **opts.get("history_solver_kw", {}))
            with B.silence():
                hs.solve()
        b, s = A.initialized_solver(p, build_kw=opts.get("build_kw"), **opts.get("solver_kw", {}))
        smt_assertions = None
        if opts.get("via_smt2"):
            # C16: the comparison is made on the SMT-LIB export, parsed back with z3
            import os, tempfile
            fd, path = tempfile.mkstemp(suffix=".smt2")
            os.close(fd)
            try:
                with B.silence():
                    if opts.get("smt2_after_solve"):
                        s.solve()   # the export must denote the PROBLEM, whatever was solved before on this solver
                    s.export_to_smt2(path)
                smt_assertions = z3.parse_smt2_string(open(path).read())
            finally:
                os.unlink(path)
    except Exception as ex:  # the library refused a well-formed problem
        out["errors"].append({"stage": "build", "exc": f"{type(ex).__name__}: {ex}",
                              "tb": traceback.format_exc(limit=6)})
        return out
    lost_keys_all = set()
    if opts.get("solutions_only"):
        # the z3-level projection is not defined for this problem (a cumulative worker listed in a selection has
        # one busy interval per task, not one per unit): only what the library RETURNS is judged, by TimelineTrace
        opts = dict(opts, soundness=False, completeness=False, indicators=False, buffers=False, replay_per_problem=0)
    try:
        if opts.get("soundness", True):
            w, inc = A.soundness(p, b, s, V, max_witnesses=opts.get("max_witnesses", 6), assertions=smt_assertions)
            out["inconclusive"] += inc
            for v in w:
                rec = {"v": v, "trace": None, "reproduced": None}
                # reproduce through the public API: pin the raw values, call solve()
                try:
                    b2 = B.build(p, **A.build_kwargs(opts.get("build_kw"), opts.get("solver_kw", {})))
                    import processscheduler as ps
                    raw = v["raw"]
                    for i, t in enumerate(b2.tasks):
                        r = raw["tasks"][t.name]
                        ps.ConstraintFromExpression(name=f"__w_s{i}", expression=t._start == r["start"])
                        ps.ConstraintFromExpression(name=f"__w_e{i}", expression=t._end == r["end"])
                        if not isinstance(t._scheduled, bool):
                            ps.ConstraintFromExpression(name=f"__w_c{i}", expression=t._scheduled == r["scheduled"])
                    for u in range(len(p["uses"])):
                        bs, be = PJ.use_vars(b2, p, u)
                        ps.ConstraintFromExpression(name=f"__w_u{u}", expression=z3.And(bs == raw["uses"][u][0], be == raw["uses"][u][1]))
                    for c in range(len(b2.cons)):
                        if p["cons"][c]["optional"]:
                            ps.ConstraintFromExpression(name=f"__w_a{c}", expression=PJ.applied_expr(b2, c) == bool(v["ap"][c]))
                    s2 = B.make_solver(b2, **opts.get("solver_kw", {}))
                    with B.silence():
                        sol = s2.solve()
                    rec["reproduced"] = bool(sol)
                    if sol:
                        sv = PJ.from_solution(p, sol)
                        rec["trace"] = PJ.to_trace(p, idx + 1, sv, sol)
                        rec["solution"] = json.loads(sol.to_json(compact=True))
                except Exception as ex:
                    rec["reproduced"] = False
                    rec["error"] = f"{type(ex).__name__}: {ex}"
                out["witnesses"].append(rec)
        if opts.get("completeness", True):
            lost, inc, chk = A.completeness(p, b, s, V, assertions=smt_assertions)
            out["inconclusive"] += inc
            out["checked_pins"] = chk
            out["lost"] = lost[:opts.get("max_lost", 500)]
            out["n_lost"] = len(lost)
            lost_keys_all = {tlc.key_of(v) for v in lost}
        if opts.get("indicators", True) and p["inds"]:
            bad, inc, chk = A.indicator_identity(p, b, s, V)
            out["inconclusive"] += inc
            out["checked_inds"] = chk
            out["ind_bad"] = [{"v": v, "values": vals} for v, vals in bad[:6]]
        if opts.get("buffers", True) and p["buffers"]:
            bad, inc, chk = A.buffer_identity(p, b, s, V)
            out["inconclusive"] += inc
            out["checked_bufs"] = chk
            out["buf_bad"] = bad[:6]
        # the solution the library returns by default
        if opts.get("default_solve", True):
            with B.silence():
                sol = s.solve()
            must = [v for v in V.values() if not v.get("unspec")]
            if not sol and must:
                # False may only mean that z3 ran into the library's default time limit on a loaded machine
                # (search time varies a lot between runs on some buffer problems): ask again, with a
                # larger limit, before calling it "no solution"
                skw = dict(opts.get("solver_kw", {}))
                skw["max_time"] = 300
                b, s = A.initialized_solver(p, build_kw=opts.get("build_kw"), **skw)
                with B.silence():
                    sol = s.solve()
                out["default_retried"] = True
            out["default"] = {"solved": bool(sol), "V": len(V), "V_must": len(must)}
            if sol and len(p["objs"]) == 1 and len(must) == len(V) and V:
                # the optimum reached by the default (incremental) optimiser against the best value over V(P)
                import scenarios as SC
                vals = [SC.objective_values(p, v)[0] for v in V.values()]
                if all(len(x) == 1 or p["objs"][0]["cls"] == "ObjectiveMinimizeMakespan" for x in vals):
                    best = min(x[0] for x in vals) if p["objs"][0]["kind"] == "minimize" else max(x[-1] for x in vals)
                    got = s._model.eval(b.objs[0]._target, model_completion=True).as_long()
                    out["optimum"] = {"got": got, "best": best}
            if sol and not p["user_horizon"] and max([t.end for t in sol.tasks.values()] + [0]) > p["H"]:
                out["outside_window"] += 1  # no user horizon: the library may go beyond the bounded window
            elif sol and opts.get("solutions_only"):
                k = 0
                while sol and k < 4:
                    sv = PJ.from_solution(p, sol)
                    out["traces"].append({"kind": "default" if k == 0 else f"alternative{k}", "trace": PJ.to_trace(p, idx + 1, sv, sol),
                                          "solution": json.loads(sol.to_json(compact=True))})
                    k += 1
                    with B.silence():
                        sol = s.find_another_solution()
            elif sol:
                sv = PJ.from_solution(p, sol)
                out["traces"].append({"kind": "default", "trace": PJ.to_trace(p, idx + 1, sv, sol),
                                      "solution": json.loads(sol.to_json(compact=True))})
        # spec -> code through the public API: pin a behaviour of the specification, solve(),
        # the returned solution must be exactly that behaviour
        rnd = random.Random(opts.get("seed", 0) * 7919 + p["id"])
        must = [v for v in V.values() if not v.get("unspec") and tlc.key_of(v) not in lost_keys_all]
        k = opts.get("replay_per_problem", 1)
        for v in rnd.sample(must, min(k, len(must))):
            try:
                b3, s3, sol = A.solve_pinned(p, v, **opts.get("solver_kw", {}))
            except Exception as ex:
                out["errors"].append({"stage": "replay", "exc": f"{type(ex).__name__}: {ex}"})
                continue
            out["replayed"] += 1
            if not sol:
                out["replay_mismatch"].append({"v": v, "got": None})
                continue
            sv = PJ.from_solution(p, sol)
            same = (sv["sched"] == v["sched"]
                    and all((not v["sched"][i]) or (sv["s"][i] == v["s"][i] and sv["e"][i] == v["e"][i])
                            for i in range(len(v["sched"])))
                    and all(p["workers"][p["uses"][u]["worker"] - 1]["cumul"] != 0
                            or (sv["used"][u] == v["used"][u]
                                and (not v["used"][u] or (sv["bs"][u] == v["bs"][u] and sv["be"][u] == v["be"][u])))
                            for u in range(len(v["used"]))))
            if not same:
                out["replay_mismatch"].append({"v": v, "got": sv})
            out["traces"].append({"kind": "pinned", "trace": PJ.to_trace(p, idx + 1, sv, sol),
                                  "solution": json.loads(sol.to_json(compact=True))})
    except Exception as ex:
        out["errors"].append({"stage": "check", "exc": f"{type(ex).__name__}: {ex}",
                              "tb": traceback.format_exc(limit=8)})
    return out


def run_family(problems, opts=None, procs=16, tlc_timeout=3000, fresh=False):
    """Returns a result dict for the whole family."""
    global _FAMILY
    opts = opts or {}
    t0 = time.time()
    V, st_enum = tlc.enumerate_V(problems, timeout=tlc_timeout)
    t_enum = time.time() - t0
    import processscheduler  # noqa: F401  (imported before forking so that workers share it)
    _FAMILY = [(p, V[p["id"]], opts) for p in problems]
    ctx = mp.get_context("fork")
    t1 = time.time()
    with ctx.Pool(min(procs, max(1, len(problems))), maxtasksperchild=1 if fresh else None) as pool:
        results = pool.map(_work, range(len(problems)), chunksize=1 if fresh else max(1, len(problems) // (procs * 8)))
    t_impl = time.time() - t1
    # batch trace validation
    traces, owners = [], []
    for ri, r in enumerate(results):
        for wi, w in enumerate(r["witnesses"]):
            if w["trace"] is not None:
                traces.append(w["trace"])
                owners.append(("w", ri, wi))
        for ti, t in enumerate(r["traces"]):
            traces.append(t["trace"])
            owners.append(("t", ri, ti))
    t2 = time.time()
    verdicts, st_trace = tlc.validate_traces(problems, traces, timeout=tlc_timeout) if traces else ([], {"generated": 0, "distinct": 0, "wall_s": 0})
    t_trace = time.time() - t2
    for (kind, ri, i), vd in zip(owners, verdicts):
        if kind == "w":
            results[ri]["witnesses"][i]["verdict"] = vd
        else:
            results[ri]["traces"][i]["verdict"] = vd
    return {"problems": problems, "V": V, "results": results,
            "stats": {"enum": st_enum, "trace": st_trace, "t_enum": round(t_enum, 1),
                      "t_impl": round(t_impl, 1), "t_trace": round(t_trace, 1),
                      "n_traces": len(traces)}}


# ---------------------------------------------------------------------------------------------
# problems beyond the exhaustive bounds: V(P) is SAMPLED by TLC in simulation mode
def _work_large(idx):
    import z3
    import admitted as A
    import build as B
    import project as PJ
    p, Vs, opts = _FAMILY[idx]
    out = {"id": p["id"], "lost": [], "n_lost": 0, "checked_pins": 0, "traces": [], "errors": [], "replayed": 0,
           "replay_mismatch": [], "inconclusive": 0, "witnesses": [], "buf_bad": [], "ind_bad": [], "checked_inds": 0,
           "checked_bufs": 0, "outside_window": 0, "default": None}
    rnd = random.Random(opts.get("seed", 0) * 104729 + p["id"])
    try:
        b, s = A.initialized_solver(p)
        sample = list(Vs.values())
        rnd.shuffle(sample)
        pick = {tlc.key_of(v): v for v in sample[:opts.get("pins_per_problem", 40)]}
        lost, inc, chk = A.completeness(p, b, s, pick)
        out["lost"], out["n_lost"], out["checked_pins"], out["inconclusive"] = lost[:50], len(lost), chk, inc
        lost_keys = {tlc.key_of(v) for v in lost}
        for v in [x for x in pick.values() if not x.get("unspec") and tlc.key_of(x) not in lost_keys][:opts.get("replay_per_problem", 2)]:
            b3, s3, sol = A.solve_pinned(p, v)
            out["replayed"] += 1
            if not sol:
                out["replay_mismatch"].append({"v": v, "got": None})
            else:
                sv = PJ.from_solution(p, sol)
                out["traces"].append({"kind": "pinned", "trace": PJ.to_trace(p, idx + 1, sv, sol),
                                      "solution": json.loads(sol.to_json(compact=True))})
        # code -> spec: whatever the library returns on its own
        for kw in ({}, {"random_values": True}):
            b4 = B.build(p)
            s4 = B.make_solver(b4, **kw)
            with B.silence():
                sol = s4.solve()
            k = 0
            if not kw:
                out["default"] = {"solved": bool(sol), "V": len(Vs), "V_must": sum(1 for v in Vs.values() if not v.get("unspec"))}
            while sol and k < opts.get("alternatives", 4):
                sv = PJ.from_solution(p, sol)
                out["traces"].append({"kind": "returned" + ("-random" if kw else "") + (f"-alt{k}" if k else ""),
                                      "trace": PJ.to_trace(p, idx + 1, sv, sol), "solution": json.loads(sol.to_json(compact=True))})
                k += 1
                with B.silence():
                    sol = s4.find_another_solution()
    except Exception as ex:
        out["errors"].append({"stage": "large", "exc": f"{type(ex).__name__}: {ex}", "tb": traceback.format_exc(limit=8)})
    return out


def run_large(problems, opts=None, procs=16, num=3000, depth=140, tlc_timeout=1200):
    global _FAMILY
    opts = opts or {}
    V, st_sim = tlc.simulate_V(problems, num=num, depth=depth, seed=opts.get("seed", 0) + 1, timeout=tlc_timeout)
    import processscheduler  # noqa: F401
    _FAMILY = [(p, V[p["id"]], opts) for p in problems]
    ctx = mp.get_context("fork")
    with ctx.Pool(min(procs, max(1, len(problems)))) as pool:
        results = pool.map(_work_large, range(len(problems)), chunksize=1)
    traces, owners = [], []
    for ri, r in enumerate(results):
        for ti, t in enumerate(r["traces"]):
            traces.append(t["trace"])
            owners.append((ri, ti))
    verdicts, st_trace = tlc.validate_traces(problems, traces, timeout=tlc_timeout) if traces else ([], {"generated": 0, "distinct": 0, "wall_s": 0})
    for (ri, ti), vd in zip(owners, verdicts):
        results[ri]["traces"][ti]["verdict"] = vd
    return {"problems": problems, "V": V, "results": results,
            "stats": {"enum": st_sim, "trace": st_trace, "t_enum": st_sim["wall_s"], "t_impl": 0, "t_trace": st_trace["wall_s"],
                      "n_traces": len(traces)}}
