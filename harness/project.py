"""The abstraction function: z3 model / SchedulingSolution -> abstract schedule -> trace.

Abstract schedule (same shape as the V lines TLC prints):
  sched[t], s[t], e[t]          per task   (s = e = -1 when not scheduled)
  used[u], bs[u], be[u]         per use    (-1 when the worker is not assigned)
  ap[c]                         per constraint (applied flag; mandatory ones True)
A use counts as assigned exactly when its busy interval starts at a non-negative time:
this is what a user sees (assignments "in the past" are the library's way of saying
"not assigned"), and it is independent of the selection Booleans, which are auxiliary.
"""
from __future__ import annotations

import z3

from build import Built


def _bool(m, x):
    if isinstance(x, bool):
        return x
    return z3.is_true(m.eval(x, model_completion=True))


def _int(m, x):
    return m.eval(x, model_completion=True).as_long()


def use_vars(b: Built, p, u):
    use = p["uses"][u]
    w = b.workers[use["worker"] - 1]
    t = b.tasks[use["task"] - 1]
    return w._busy_intervals[t]


def sched_expr(b: Built, t):
    s = b.tasks[t]._scheduled
    return z3.BoolVal(s) if isinstance(s, bool) else s


def applied_expr(b: Built, c):
    a = b.cons[c]._applied
    return z3.BoolVal(a) if isinstance(a, bool) else a


def from_model(b: Built, p, m):
    v = {"sched": [], "s": [], "e": [], "used": [], "bs": [], "be": [], "ap": []}
    for i, t in enumerate(b.tasks):
        sc = _bool(m, t._scheduled)
        v["sched"].append(sc)
        v["s"].append(_int(m, t._start) if sc else -1)
        v["e"].append(_int(m, t._end) if sc else -1)
    for u in range(len(p["uses"])):
        bs, be = use_vars(b, p, u)
        x, y = _int(m, bs), _int(m, be)
        used = x >= 0
        v["used"].append(used)
        v["bs"].append(x if used else -1)
        v["be"].append(y if used else -1)
    for c in b.cons:
        v["ap"].append(_bool(m, c._applied))
    v["lv0"] = [_int(m, bf._buffer_levels[0]) for bf in b.buffers]
    return v


def raw_model(b: Built, p, m):
    """The un-abstracted values, for replay files."""
    r = {"tasks": {}, "uses": []}
    for t in b.tasks:
        r["tasks"][t.name] = {"start": _int(m, t._start), "end": _int(m, t._end),
                              "scheduled": _bool(m, t._scheduled)}
    for u in range(len(p["uses"])):
        bs, be = use_vars(b, p, u)
        r["uses"].append([_int(m, bs), _int(m, be)])
    return r


def match(b: Built, p, v):
    """z3 formula: the model projects onto the abstract schedule v."""
    cs = []
    for i, t in enumerate(b.tasks):
        cs.append(sched_expr(b, i) == z3.BoolVal(bool(v["sched"][i])))
        if v["sched"][i]:
            cs.append(t._start == v["s"][i])
            cs.append(t._end == v["e"][i])
    for u in range(len(p["uses"])):
        bs, be = use_vars(b, p, u)
        if v["used"][u]:
            cs.append(bs == v["bs"][u])
            cs.append(be == v["be"][u])
        else:
            cs.append(bs < 0)
    for c in range(len(b.cons)):
        if p["cons"][c]["optional"]:
            cs.append(applied_expr(b, c) == z3.BoolVal(bool(v["ap"][c])))
    for i, bf in enumerate(b.buffers):
        if not p["buffers"][i]["initial"]:
            cs.append(bf._buffer_levels[0] == v["lv0"][i])
    return z3.And(cs) if cs else z3.BoolVal(True)


def buffer_report(m, bf):
    """(time, level after the accesses of that time) as the model has them, first occurrence of
    each time kept -- the reading of Buffer._level_changes_time / _buffer_levels."""
    times = [_int(m, x) for x in bf._level_changes_time]
    levels = [_int(m, x) for x in bf._buffer_levels]
    out, seen = [], set()
    for t, l in zip(times, levels[1:]):
        if t < 0:
            continue  # "in the past": the library's way of saying that the access does not happen
        if t not in seen:
            seen.add(t)
            out.append([t, l])
    return out


# ----------------------------------------------------------------------------------------
# SchedulingSolution -> abstract schedule and trace
def from_solution(p, sol):
    """Abstract schedule as far as the solution object shows it.  Units of cumulative workers
    are not identifiable in a solution (they are folded under the cumulative's name): their
    uses are reported per requirement in 'creqs'."""
    v = {"sched": [], "s": [], "e": [], "used": [], "bs": [], "be": [], "creqs": []}
    for tk in p["tasks"]:
        ts = sol.tasks[tk["name"]]
        v["sched"].append(bool(ts.scheduled))
        v["s"].append(ts.start)
        v["e"].append(ts.end)
    for use in p["uses"]:
        w = p["workers"][use["worker"] - 1]
        tname = p["tasks"][use["task"] - 1]["name"]
        iv = None
        if w["cumul"] == 0 and w["name"] in sol.resources:
            for (tn, a, c) in sol.resources[w["name"]].assignments:
                if tn == tname:
                    iv = (a, c)
        v["used"].append(iv is not None)
        v["bs"].append(iv[0] if iv else -1)
        v["be"].append(iv[1] if iv else -1)
    # units of a cumulative worker are folded under the cumulative's name: per requirement and cumulative
    # worker involved, the intervals the solution reports for (cumulative, task)
    v["cgroups"] = []
    for ri, r in enumerate(p["reqs"]):
        cums = sorted({p["workers"][p["uses"][u - 1]["worker"] - 1]["cumul"] for u in r["uses"]} - {0})
        tname = p["tasks"][r["task"] - 1]["name"]
        for k in cums:
            cname = p["cumuls"][k - 1]["name"]
            ivs = []
            if cname in sol.resources:
                ivs = sorted({(a, c) for (tn, a, c) in sol.resources[cname].assignments if tn == tname})
            v["cgroups"].append({"req": ri + 1, "cumul": k, "ivs": [list(x) for x in ivs]})
        v["creqs"].append([])
    return v


def to_trace(p, pid_index, sv, sol=None, fin_override=None):
    """Event trace (see spec/TimelineTrace.tla) of an abstract schedule taken from a solution."""
    inst = {}

    def ev(t, e):
        inst.setdefault(t, []).append(e)

    for i, tk in enumerate(p["tasks"]):
        if not sv["sched"][i]:
            continue
        picks = []
        for u, use in enumerate(p["uses"]):
            if use["task"] == i + 1 and sv["used"][u] and p["workers"][use["worker"] - 1]["cumul"] == 0 \
                    and p["reqs"][use["req"] - 1]["type"] != "worker":
                picks.append(u + 1)
        ev(sv["s"][i], {"k": "start", "task": i + 1, "picks": picks})
        ev(sv["e"][i], {"k": "end", "task": i + 1})
    for u, use in enumerate(p["uses"]):
        if not sv["used"][u] or p["workers"][use["worker"] - 1]["cumul"] != 0:
            continue
        if not sv["sched"][use["task"] - 1]:
            # an assignment reported for a task that is not scheduled: no machine event can match
            ev(sv["bs"][u], {"k": "join", "use": u + 1})
            continue
        if use["dynamic"]:
            ev(sv["bs"][u], {"k": "join", "use": u + 1})
            if sv["be"][u] != sv["e"][use["task"] - 1] or sv["be"][u] == sv["bs"][u]:
                ev(sv["be"][u], {"k": "leave", "use": u + 1})
        else:
            if use["delay_in"] > 0 and sv["bs"][u] != sv["e"][use["task"] - 1]:
                ev(sv["bs"][u], {"k": "acquire", "use": u + 1})
            if use["early_out"] > 0 and sv["be"][u] != sv["e"][use["task"] - 1]:
                ev(sv["be"][u], {"k": "release", "use": u + 1})
    fin = {"hist": [], "ind": [], "horizon": p["H"],
           "uses": [[sv["bs"][u], sv["be"][u]] if sv["used"][u] else [] for u in range(len(p["uses"]))],
           "creqs": sv.get("creqs") or [[] for _ in p["reqs"]],
           "cgroups": sv.get("cgroups") or []}
    lv0 = []
    if sol is not None:
        fin["horizon"] = sol.horizon
        for bf in p["buffers"]:
            bs = sol.buffers[bf["name"]]
            lv0.append(bs.level[0])
            fin["hist"].append([[t, l] for t, l in zip(bs.level_change_times, bs.level[1:])])
        for ind in p["inds"]:
            nm = ind.get("solname", ind["name"])
            fin["ind"].append([sol.indicators[nm]] if nm in sol.indicators else [])
    else:
        lv0 = [0 for _ in p["buffers"]]
        fin["hist"] = [[] for _ in p["buffers"]]
        fin["ind"] = [[] for _ in p["inds"]]
    if fin_override:
        fin.update(fin_override)
    return {"pid": pid_index, "sched": sv["sched"], "lv0": lv0,
            "instants": [{"t": t, "ev": inst[t]} for t in sorted(inst)], "fin": fin}
