"""Evidence files (/verif/evidence/<id>.json), written by the checks themselves."""
from __future__ import annotations

import json
import os

ROOT = os.path.dirname(os.path.dirname(os.path.abspath(__file__)))
# development runs against a scratch copy of the library (PYTHONPATH) write elsewhere; manifest commands never set this
OUT_ROOT = os.environ.get("VERIF_DEV_DIR", ROOT)


def write(prop, tier, seed, outcome, n_new, n_known):
    cov = dict(outcome.get("coverage", {}))
    cov.setdefault("states", 0)
    cov.setdefault("transitions", 0)
    cov.setdefault("traces_validated_against_impl", 0)
    cov.setdefault("samples", [])
    doc = {
        "property_id": prop,
        "tier": tier,
        "seed": seed,
        "level": outcome.get("level", "model_checking"),
        "coverage": cov,
        "assumptions": outcome.get("assumptions", []),
        "wall_s": outcome.get("wall_s", 0.0),
        "violations": n_new,
        "known_findings_matched": n_known,
    }
    os.makedirs(os.path.join(OUT_ROOT, "evidence"), exist_ok=True)
    with open(os.path.join(OUT_ROOT, "evidence", f"{prop}.json"), "w") as f:
        json.dump(doc, f, indent=1, default=str)
