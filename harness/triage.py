"""Development helper: run a family through the engine and summarise what fires."""
import sys, os, json, collections, importlib, time
sys.path.insert(0, os.path.dirname(os.path.abspath(__file__)))
import engine, tlc

def summarize(res, show=3):
    st = res["stats"]
    print("stats", json.dumps(st))
    probs = {p["id"]: p for p in res["problems"]}
    cnt = collections.Counter()
    ex = collections.defaultdict(list)
    for r in res["results"]:
        p = probs[r["id"]]
        tag = p["tag"]
        for e in r["errors"]:
            cnt[("error", tag, e["exc"][:80])] += 1; ex[("error", tag, e["exc"][:80])].append(r["id"])
        for w in r["witnesses"]:
            vd = w.get("verdict")
            why = tuple(vd["why"]) if vd and not vd["accept"] else ("ACCEPTED?!" if vd else "not-reproduced:" + str(w.get("error")),)
            k = ("witness", tag, why)
            cnt[k] += 1; ex[k].append((r["id"], w["v"]["raw"]))
        if r.get("n_lost"):
            k = ("lost", tag)
            cnt[k] += r["n_lost"]; ex[k].append((r["id"], tlc.key_of(r["lost"][0])))
        for t in r["traces"]:
            vd = t["verdict"]
            if not vd["accept"]:
                k = ("trace-reject", tag, t["kind"], tuple(vd["why"]))
                cnt[k] += 1; ex[k].append(r["id"])
        for m in r["replay_mismatch"]:
            k = ("replay-mismatch", tag); cnt[k] += 1; ex[k].append(r["id"])
        for ib in r["ind_bad"]:
            k = ("ind-bad", tag); cnt[k] += 1; ex[k].append((r["id"], ib["values"], ib["v"]["ind"]))
        for ib in r["buf_bad"]:
            k = ("buf-bad", tag, ib["kind"]); cnt[k] += 1; ex[k].append((r["id"], ib["reported"], ib["v"]["hist"]))
        if r["inconclusive"]:
            cnt[("inconclusive", tag)] += r["inconclusive"]
        d = r.get("default")
        if d and not d["solved"] and d["V_must"] > 0:
            k = ("solve-false-but-valid-exists", tag); cnt[k] += 1; ex[k].append(r["id"])
    for k, n in sorted(cnt.items(), key=lambda kv: str(kv[0])):
        print(n, k)
        for e in ex[k][:show]:
            print("      e.g.", e)
    return cnt, ex

if __name__ == "__main__":
    mod, fn, tier = sys.argv[1], sys.argv[2], sys.argv[3]
    m = importlib.import_module("families." + mod)
    ps = getattr(m, fn)(tier, int(os.environ.get("VERIF_SEED", "0")))
    print(len(ps), "problems")
    t = time.time()
    res = engine.run_family(ps, {"seed": 0})
    print("wall", round(time.time() - t, 1))
    summarize(res)
    if len(sys.argv) > 4:
        json.dump({"problems": res["problems"], "results": res["results"]}, open(sys.argv[4], "w"), default=str)
