"""Runners of C11 (solution object), C16 (exports) and C17 (Gantt chart)."""
from __future__ import annotations

import json
import multiprocessing as mp
import random
import time
import traceback

import tlc
from families import reports as FR
from families import tasks as FT

ASSUME = [
    "TLC 1.8 + CommunityModules, z3, CPython, pydantic, pandas, xlsxwriter, matplotlib (Agg) are trusted",
    "inputs are the schedules TLC enumerates from Timeline for corner-case problems, each steered to be the returned one by pinning it through the public API",
    "independent parsers: json, csv, ast.literal_eval, zipfile + XML (no openpyxl), matplotlib artist geometry; fonts, colours, styling and rasterisation are not modelled",
]

_JOBS = None


def _work(i):
    import admitted as A
    import build as B
    import project as PJ
    import report as R
    p, vs, opts = _JOBS[i]
    out = {"records": [], "errors": []}
    for v in vs:
        try:
            b, s, sol = A.solve_pinned(p, v)
            if not sol:
                continue
            S = PJ.from_model(b, p, s._model)
            rec = {"S": {k: S[k] for k in ("sched", "s", "e", "used", "bs", "be")}, "sol": R.sol_record(p, sol)}
            if opts.get("exports"):
                try:
                    rec["ex"] = R.export_record(p, sol)
                except Exception as ex:
                    out["errors"].append({"stage": "export", "exc": f"{type(ex).__name__}: {ex}", "tb": traceback.format_exc(limit=5),
                                          "schedule": tlc.key_of(v), "sol": rec["sol"]})
            if opts.get("gantt"):
                try:
                    rec["g"] = R.gantt_record(p, sol)
                except Exception as ex:
                    out["errors"].append({"stage": "gantt", "exc": f"{type(ex).__name__}: {ex}", "tb": traceback.format_exc(limit=5),
                                          "schedule": tlc.key_of(v)})
            out["records"].append(rec)
        except Exception as ex:
            out["errors"].append({"stage": "solve", "exc": f"{type(ex).__name__}: {ex}", "tb": traceback.format_exc(limit=5)})
    # the default solution and a few alternatives (enumerated with find_another_solution)
    try:
        b = B.build(p)
        s = B.make_solver(b)
        with B.silence():
            sol = s.solve()
        k = 0
        while sol and k < opts.get("alternatives", 2):
            S = PJ.from_model(b, p, s._model)
            rec = {"S": {k2: S[k2] for k2 in ("sched", "s", "e", "used", "bs", "be")}, "sol": R.sol_record(p, sol)}
            if opts.get("exports"):
                rec["ex"] = R.export_record(p, sol)
            if opts.get("gantt") and k == 0:
                rec["g"] = R.gantt_record(p, sol)
            out["records"].append(rec)
            k += 1
            with B.silence():
                sol = s.find_another_solution()
    except Exception as ex:
        out["errors"].append({"stage": "default", "exc": f"{type(ex).__name__}: {ex}", "tb": traceback.format_exc(limit=5)})
    return out


def run_reports(prop, tier, seed, exports=False, gantt=False, replay=None, procs=16, per_problem=None):
    global _JOBS
    rng = random.Random(seed + 17)
    full = tier == "thorough"
    problems = FT.number([replay["problem"]]) if replay else FR.fam_reports(tier, seed)
    if prop == "C11" and not replay:
        # the solution object is also checked on the task/resource families of C02
        extra = [p for p in FT.fam_C02(tier, seed) if not p.get("_opts", {}).get("solutions_only")]
        extra = rng.sample(extra, min(len(extra), 60 if full else 15))
        problems = FT.number(problems + extra)
    if not replay:
        # cross-feature problems (families/mixed.py): what is reported / exported / drawn for schedules that combine
        # buffers, indicators, selections, cumulative workers, optional tasks and shifted assignments
        from families import mixed as F_mixed
        extra = []
        for focus in ("buffer", "indicator", "basic"):
            extra += [q for q in F_mixed.fam_mixed(tier, seed, focus, n=(20 if full else 4) if prop == "C11" else (12 if full else 3))]
        problems = FT.number([json.loads(json.dumps(q)) for q in problems + extra])
    if not replay and prop == "C16":
        # the same problems under names that read as numbers ("12", "1_2", "007", ...): an export shows names as given
        import variants as VR
        renamed = [VR.rename(q, "number_like") for q in problems[: (12 if full else 4)] if not q["cumuls"]]
        for q in renamed:
            q["tag"] = q["tag"] + "/number-like-names"
        problems = FT.number([json.loads(json.dumps(q)) for q in problems + renamed])
    # problems too large for a complete enumeration (a cumulative worker of size 10): only what solve() returns by
    # default is recorded and judged by the Report clauses
    V, st_enum = tlc.enumerate_V([q for q in problems if not q.get("default_only")] or problems[:1])
    for q in problems:
        V.setdefault(q["id"], {})
    k = per_problem or ((12 if full else 4) if not gantt else (5 if full else 2))
    jobs = []
    for p in problems:
        vs = [v for v in V[p["id"]].values() if not v.get("unspec")]
        pick = rng.sample(vs, min(k, len(vs)))
        jobs.append((p, pick, {"exports": exports, "gantt": gantt, "alternatives": 3 if full else 2}))
    _JOBS = jobs
    import processscheduler  # noqa: F401
    ctx = mp.get_context("fork")
    with ctx.Pool(min(procs, len(jobs))) as pool:
        outs = pool.map(_work, range(len(jobs)), chunksize=1)
    records, owners = [], []
    for pi, o in enumerate(outs):
        for r in o["records"]:
            records.append(dict(r, pid=pi + 1))
            owners.append(pi)
    verdicts, st = tlc.validate_reports(problems, records)
    prefix = {"C11": "R11", "C16": "R16", "C17": "R17"}[prop]
    viol = []
    for rec, pi, vd in zip(records, owners, verdicts):
        bad = [c for c in vd["failing"] if c.startswith(prefix)]
        if bad:
            p = problems[pi]
            viol.append({"kind": "misreports", "summary": ",".join(bad), "clauses": bad, "problem": p, "tag": p["tag"],
                         "detail": {"record": rec}})
    for pi, o in enumerate(outs):
        for e in o["errors"]:
            relevant = {"C11": ("solve", "default"), "C16": ("export",), "C17": ("gantt",)}[prop]
            if e["stage"] in relevant:
                p = problems[pi]
                viol.append({"kind": "exception", "summary": f"{e['stage']}: {e['exc']}", "clauses": [e["exc"].split(":")[0]],
                             "problem": p, "tag": p["tag"], "detail": {"error": e, "record": {"sol": e.get("sol")}}})
    nclauses = sum(v["nclauses"] for v in verdicts)
    cov = {"states": st_enum["distinct"] + st["distinct"], "transitions": st_enum["generated"] + st["generated"],
           "traces_validated_against_impl": len(records),
           "samples": [{"problem_tag": problems[owners[i]]["tag"], "record": records[i], "verdict": verdicts[i]}
                       for i in range(0, len(records), max(1, len(records) // 2))][:2],
           "problems": len(problems), "records": len(records), "clauses_evaluated": nclauses,
           "valid_schedules_enumerated": sum(len(v) for v in V.values()),
           "tlc": {"enumeration": st_enum, "report_trace": st}}
    return {"violations": viol, "coverage": cov, "assumptions": ASSUME,
            "summary": f"{len(problems)} problems, {len(records)} records, {nclauses} clauses evaluated by TLC"}


def run_C11(tier, seed, replay=None, procs=16):
    return run_reports("C11", tier, seed, replay=replay, procs=procs)


def run_C17(tier, seed, replay=None, procs=16):
    return run_reports("C17", tier, seed, gantt=True, replay=replay, procs=procs)


def run_C16(tier, seed, replay=None, procs=16):
    """Exports of solutions (JSON / CSV / DataFrame / Excel), the SMT-LIB export of problems under both
    optimisers (set equality with V(P) on the parsed text), and the JSON round trip of task and worker
    definitions (the problem rebuilt from to_json()/add_from_json() must have the same valid schedules)."""
    import copy
    import engine
    import props
    if replay and replay.get("detail", {}).get("record") is not None:
        return run_reports("C16", tier, seed, exports=True, replay=replay, procs=procs)
    out = run_reports("C16", tier, seed, exports=True, procs=procs)
    rng = random.Random(seed + 19)
    full = tier == "thorough"
    base = [p for p in FT.fam_C02(tier, seed) + FT.fam_C03(tier, seed) + FT.fam_C01(tier, seed)
            if not p.get("_opts", {}).get("solutions_only")]
    base = rng.sample(base, min(len(base), 150 if full else 45))
    if replay:
        base = [replay["problem"]]
    # (a) SMT-LIB, plain solver and built-in optimiser
    smt_problems = []
    for p in base:
        smt_problems.append(dict(copy.deepcopy(p), tag="smt2/" + p["tag"]))
        q = copy.deepcopy(p)
        q["objs"] = [{"cls": "ObjectiveMinimizeMakespan", "ind": 0, "kind": "minimize", "weight": 1}]
        q["tag"] = "smt2-optimize/" + p["tag"]
        smt_problems.append(q)
    smt_problems = FT.number(smt_problems)
    res1 = engine.run_family([p for p in smt_problems if not p["objs"]],
                             {"via_smt2": True, "default_solve": False, "replay_per_problem": 0, "indicators": False, "buffers": False, "seed": seed}, procs=procs)
    res2 = engine.run_family(FT.number([p for p in smt_problems if p["objs"]]),
                             {"via_smt2": True, "solver_kw": {"optimizer": "optimize"}, "default_solve": False,
                              "replay_per_problem": 0, "indicators": False, "buffers": False, "seed": seed}, procs=procs)
    # (a') export after an optimisation has run on the same solver (incremental optimiser, minimise and maximise)
    after = []
    for p in base[: (60 if full else 16)]:
        if not p["tasks"]:
            continue
        for kind in ("minimize", "maximize"):
            q = copy.deepcopy(p)
            q["inds"] = list(q["inds"]) + [{"name": "SMTX", "cls": "IndicatorFromMathExpression", "expr": {"op": "start", "task": 1}}]
            q["objs"] = [{"cls": "ObjectiveMinimizeIndicator" if kind == "minimize" else "ObjectiveMaximizeIndicator",
                          "ind": len(q["inds"]), "kind": kind, "weight": 1}]
            q["tag"] = "smt2-after-solve/" + kind
            after.append(q)
    after = FT.number(after)
    res_after = engine.run_family(after, {"via_smt2": True, "smt2_after_solve": True, "default_solve": False, "replay_per_problem": 0,
                                          "indicators": False, "buffers": False, "seed": seed}, procs=procs)
    # (b) JSON round trip of task / worker definitions
    rt = FT.number([dict(copy.deepcopy(p), tag="roundtrip/" + p["tag"]) for p in base])
    res3 = engine.run_family(rt, {"build_kw": {"roundtrip": True}, "replay_per_problem": 0, "seed": seed}, procs=procs)
    viol = list(out["violations"])
    # (c) cost functions alone: to_json() -> model_validate_json() must denote the same function
    import itertools
    import processscheduler as ps
    import build as B
    n_fun = 0
    with B.silence():
        ps.SchedulingProblem(name="functions", horizon=5)
        specs = [("ConstantFunction", dict(value=v)) for v in (-2, 0, 1, 7)]
        specs += [("LinearFunction", dict(slope=a, intercept=c)) for a, c in itertools.product((-1, 0, 2), (-3, 0, 5))]
        specs += [("PolynomialFunction", dict(coefficients=list(cs))) for cs in ((1,), (0, 4), (2, 0, 1), (1, 2, 3, 4), (0, 0, 0), (-1, 0, 2, 0))]
        for cls, kw in specs:
            n_fun += 1
            try:
                f = getattr(ps, cls)(**kw)
                g = getattr(ps, cls).model_validate_json(f.to_json())
                vals = [(x, f(x), g(x)) for x in range(-2, 6)]
                diff = [(x, a, c) for x, a, c in vals if a != c]
            except Exception as ex:
                diff = [f"{type(ex).__name__}: {ex}"]
            if diff:
                viol.append({"kind": "misreports", "summary": f"{cls}({kw}) does not survive its JSON round trip: {diff[:3]}",
                             "clauses": ["R16_function_roundtrip"], "problem": {"tag": "function-roundtrip", "cons": [], "buffers": []},
                             "tag": "function-roundtrip", "detail": {"cls": cls, "kw": kw, "diff": str(diff[:5])}})
    out["coverage"]["function_roundtrips"] = n_fun
    for res in (res1, res2, res_after, res3):
        viol += props.collect("C16", res, {"sound", "complete"})
    cov = out["coverage"]
    for name, res in (("smt2_plain", res1), ("smt2_optimize", res2), ("smt2_after_solve", res_after), ("json_roundtrip", res3)):
        c = props.coverage_of(res)
        cov["states"] += c["states"]
        cov["transitions"] += c["transitions"]
        cov["traces_validated_against_impl"] += c["traces_validated_against_impl"]
        cov[name] = {k: c[k] for k in ("problems", "valid_schedules_enumerated", "pins_checked", "soundness_queries", "witnesses_examined", "inconclusive")}
    out["violations"] = viol
    out["summary"] += f"; smt2: {len(res1['problems'])}+{len(res2['problems'])} problems, round trip: {len(rt)} problems"
    return out


RUNNERS = {"C11": run_C11, "C16": run_C16, "C17": run_C17}
