#!/bin/sh
# Offline setup: nothing to build; parse every specification module and import the harness once.
set -e
cd "$(dirname "$0")/../spec"
for m in MC_Timeline TimelineTrace MC_Solver SolverTrace ReportTrace Builder; do
  tla-sany $m.tla > /tmp/sany_$m.log 2>&1 || { cat /tmp/sany_$m.log; exit 1; }
  if grep -q "Semantic errors\|Parse Error\|\*\*\* Errors" /tmp/sany_$m.log; then cat /tmp/sany_$m.log; exit 1; fi
  rm -f /tmp/sany_$m.log
done
cd ..
PYTHONHASHSEED=0 /venv/bin/python -c "import sys; sys.path.insert(0,'harness'); import props, findings, evidence; print('harness ok:', sorted(props.RUNNERS))"
