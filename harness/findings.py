"""Known findings: genuine defects of the implementation that are recorded, not repaired.

/verif/known_findings.json is committed and read-only at run time.  An open finding is a
narrow signature: property, kind of violation, and a match on the problem (tag / element
class), the failing clause and optionally a named predicate over (problem, violation).  A
violation that matches no signature is reported as a VIOLATION.
"""
from __future__ import annotations

import json
import os
import re

PATH = os.path.join(os.path.dirname(os.path.dirname(os.path.abspath(__file__))), "known_findings.json")


def load():
    if not os.path.exists(PATH):
        return {"open": [], "fixed": []}
    return json.load(open(PATH))


def _classes(p):
    return {c["cls"] for c in p.get("cons", [])}


def _interrupted_longer_than_max(p, v):
    """A variable-duration task with a max_duration, held by a resource that has an interruption
    constraint, whose duration in the lost schedule exceeds max_duration."""
    ex = v.get("example") or v.get("detail", {}).get("example")
    if not ex:
        return False
    inter = [c for c in p["cons"] if c["cls"] in ("ResourceInterrupted", "ResourcePeriodicallyInterrupted")]
    if not inter:
        return False
    for i, t in enumerate(p["tasks"]):
        if t["kind"] == "V" and t["max"] and ex["sched"][i] and ex["e"][i] - ex["s"][i] > t["max"][0]:
            return True
    return False


def _xlsx_row_collision(p, v):
    """Two assignments of one resource whose Excel cell ranges intersect (a zero-length assignment
    at the start of another one, or overlapping assignments of a cumulative worker)."""
    rec = v.get("detail", {}).get("record") or {}
    sol = rec.get("sol")
    if not sol:
        return False
    def rng(a):
        s, e = a[1], a[2]
        return (s + 1, e) if e - s > 1 else (s + 1, s + 1)
    for r in sol["resources"]:
        rs = [rng(a) for a in r["assignments"]]
        for i in range(len(rs)):
            for j in range(i + 1, len(rs)):
                if rs[i][0] <= rs[j][1] and rs[j][0] <= rs[i][1]:
                    return True
    return False


EXISTENTIAL = {"TasksContiguous", "UnorderedTaskGroup", "OrderedTaskGroup"}


def _negated_existential_operand(p, v):
    """The failing clause names a Not / Xor constraint one of whose operands is (or contains) a
    constraint whose encoding introduces auxiliary variables (sorted times of TasksContiguous, the
    window of a task group)."""
    cons = p["cons"]
    byname = {c["name"]: c for c in cons}

    def ops(c):
        out = []
        for k in ("x", "y"):
            if k in c and c[k]["t"] == "con":
                out.append(cons[c[k]["i"] - 1])
        for k in ("xs", "ys"):
            for o in c.get(k, []):
                if o["t"] == "con":
                    out.append(cons[o["i"] - 1])
        return out

    def has(c):
        return c["cls"] in EXISTENTIAL or any(has(o) for o in ops(c))

    def negated(c, under_negation):
        if c["cls"] in EXISTENTIAL:
            return under_negation
        if c["cls"] in ("Not", "Xor"):
            return any(has(o) for o in ops(c))
        return any(negated(o, under_negation) for o in ops(c))

    for cl in v.get("clauses", []):
        if "G_constraint:" in cl:
            c = byname.get(cl.split("G_constraint:")[1])
            if c is not None and negated(c, False):
                return True
    return False


def _two_interruption_constraints(p, v):
    """Two or more interruption constraints on one resource that serves a variable-duration task."""
    by_res = {}
    for c in p["cons"]:
        if c["cls"] in ("ResourceInterrupted", "ResourcePeriodicallyInterrupted"):
            by_res.setdefault((c["res"]["t"], c["res"]["i"]), []).append(c)
    for (t, i), cs in by_res.items():
        if len(cs) < 2:
            continue
        units = {i} if t == "worker" else set(p["cumuls"][i - 1]["units"])
        if any(u["worker"] in units and p["tasks"][u["task"] - 1]["kind"] == "V" for u in p["uses"]):
            return True
    return False


PREDICATES = {
    "two_interruption_constraints_on_one_resource": _two_interruption_constraints,
    "negated_existential_operand": _negated_existential_operand,
    "xlsx_row_collision": _xlsx_row_collision,
    # name -> function(problem, violation) -> bool
    "lost:interrupted_variable_task_longer_than_max": _interrupted_longer_than_max,
    "task_loads_and_unloads_same_buffer":
        lambda p, v: any(len({o["task"] for o in bf["ops"]}) < len(bf["ops"]) for bf in p["buffers"]),
}


def matches(v, k):
    if k["kind"] != v["kind"]:
        return False
    m = k.get("match", {})
    p = v.get("problem", {})
    if "tag" in m and not re.search(m["tag"], p.get("tag", "")):
        return False
    if "cls" in m and m["cls"] not in _classes(p):
        return False
    if "clause" in m and not any(re.search(m["clause"], c) for c in v.get("clauses", [])):
        return False
    if "pred" in m and not (m["pred"] in v.get("clauses", []) or PREDICATES[m["pred"]](p, v)):
        return False
    return True


def split(prop, violations, known):
    new, listed = [], []
    for v in violations:
        hit = None
        for k in known.get("open", []):
            # "also": the other properties whose cross-feature problems can contain the same failing input
            if (k["property"] == prop or prop in k.get("also", [])) and matches(v, k):
                hit = k
                break
        if hit is None:
            new.append(v)
        else:
            listed.append((v, hit))
    return new, listed


def describe(v, k):
    return f"{k['id']}: {k['what']}"
