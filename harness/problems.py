"""Neutral problem descriptions.

One JSON document per problem, consumed both by TLC (spec/Problem.tla documents the
fields) and by build.py, which turns it into real processscheduler objects.  All fields
are always present; optional values are [] or [v]; elements are referred to by 1-based
index (TLA+ sequences).  Nothing in this file imports processscheduler.
"""
from __future__ import annotations

import copy
import json


def opt(v):
    return [] if v is None else [v]


# ----------------------------------------------------------------------------------------
# expression AST helpers (raw z3 expressions over the documented task variables)
def const(v):
    return {"op": "const", "v": v}


def start(t):
    return {"op": "start", "task": t}


def end(t):
    return {"op": "end", "task": t}


def dur(t):
    return {"op": "dur", "task": t}


def add(a, b):
    return {"op": "add", "a": a, "b": b}


def sub(a, b):
    return {"op": "sub", "a": a, "b": b}


def mul(k, a):
    return {"op": "mul", "k": k, "a": a}


def cmp(op, a, b):
    assert op in ("le", "lt", "ge", "gt", "eq", "ne")
    if isinstance(a, int):
        a = const(a)
    if isinstance(b, int):
        b = const(b)
    return {"op": op, "a": a, "b": b}


def b_and(*xs):
    return {"op": "and", "xs": list(xs)}


def b_or(*xs):
    return {"op": "or", "xs": list(xs)}


def b_not(x):
    return {"op": "not", "x": x}


def b_sched(t):
    return {"op": "sched", "task": t}


def o_con(i):
    return {"t": "con", "i": i}


def o_expr(e):
    return {"t": "expr", "e": e}


def res_worker(i):
    return {"t": "worker", "i": i}


def res_cumul(i):
    return {"t": "cumul", "i": i}


# ----------------------------------------------------------------------------------------
class PB:
    """Problem builder producing the neutral description."""

    def __init__(self, H, user_horizon=True, name="P", tag=None, delta_time=None, start_time=None):
        self.p = {
            "id": 0,
            "name": name,
            "tag": tag or "",
            "H": H,
            "user_horizon": user_horizon,
            "delta_time": opt(delta_time),  # seconds
            "start_time": opt(start_time),  # ISO string
            "tasks": [],
            "workers": [],
            "cumuls": [],
            "selects": [],
            "reqs": [],
            "uses": [],
            "cons": [],
            "buffers": [],
            "inds": [],
            "objs": [],
        }
        self._n = 0

    # ---- tasks
    def task(self, name, kind="F", dur=1, min=0, max=None, allowed=None, optional=False,
             release=None, due=None, deadline=True, priority=1, work=0):
        assert kind in ("F", "Z", "V")
        self.p["tasks"].append({
            "name": name, "kind": kind, "dur": dur if kind == "F" else 0, "min": min,
            "max": opt(max), "allowed": list(allowed or []), "optional": optional,
            "release": opt(release), "due": opt(due), "deadline": deadline,
            "priority": priority, "work": work})
        return len(self.p["tasks"])

    # ---- resources
    @staticmethod
    def _cost(cost):
        # cost: None | int (constant) | ("lin", slope, intercept)
        if cost is None:
            return {"k": "const", "c": [0], "given": False}
        if isinstance(cost, int):
            return {"k": "const", "c": [cost], "given": True}
        return {"k": cost[0], "c": list(cost[1:]), "given": True}

    def worker(self, name, prod=1, cost=None, _cumul=0):
        self.p["workers"].append({"name": name, "prod": prod, "cost": self._cost(cost), "cumul": _cumul})
        return len(self.p["workers"])

    def cumul(self, name, size, prod=1, cost=None):
        k = len(self.p["cumuls"]) + 1
        # the library spreads productivity (and a constant cost) over the unit workers
        prods = [prod // size + prod % size] + [prod // size] * (size - 1)
        if isinstance(cost, int):
            costs = [cost // size + cost % size] + [cost // size] * (size - 1)
        else:
            costs = [None] * size
        units = [self.worker(f"{name}_CumulativeWorker_{i + 1}", prods[i], costs[i], _cumul=k)
                 for i in range(size)]
        self.p["cumuls"].append({"name": name, "size": size, "units": units, "prod": prod,
                                 "cost": self._cost(cost)})
        return k

    def select(self, name, workers, n=1, kind="exact", cumuls=()):
        """workers: plain worker indices; cumuls: cumulative workers listed as members too (after the plain ones)."""
        members = [{"t": "worker", "i": w} for w in workers] + [{"t": "cumul", "i": c} for c in cumuls]
        self.p["selects"].append({"name": name, "workers": list(workers), "members": members, "n": n, "kind": kind})
        return len(self.p["selects"])

    def _use(self, task, worker, req, dynamic=False, delay_in=0, early_out=0):
        self.p["uses"].append({"task": task, "worker": worker, "req": req, "dynamic": dynamic,
                               "delay_in": delay_in, "early_out": early_out})
        return len(self.p["uses"])

    def require(self, task, worker=None, select=None, cumul=None, dynamic=False, delay_in=0, early_out=0):
        r = len(self.p["reqs"]) + 1
        if worker is not None:
            uses = [self._use(task, worker, r, dynamic, delay_in, early_out)]
            rec = {"task": task, "type": "worker", "ref": worker, "uses": uses, "n": 1, "kind": "exact",
                   "groups": [[u] for u in uses]}
        elif select is not None:
            s = self.p["selects"][select - 1]
            uses, groups = [], []
            for m in s["members"]:
                if m["t"] == "worker":
                    g = [self._use(task, m["i"], r)]
                else:
                    # a cumulative worker listed in a selection: picking it takes ONE of its units
                    g = [self._use(task, w, r) for w in self.p["cumuls"][m["i"] - 1]["units"]]
                uses += g
                groups.append(g)
            rec = {"task": task, "type": "select", "ref": select, "uses": uses, "n": s["n"], "kind": s["kind"], "groups": groups}
        else:
            c = self.p["cumuls"][cumul - 1]
            uses = [self._use(task, w, r) for w in c["units"]]
            rec = {"task": task, "type": "cumul", "ref": cumul, "uses": uses, "n": 1, "kind": "min",
                   "groups": [[u] for u in uses]}
        rec.update({"dynamic": dynamic, "delay_in": delay_in, "early_out": early_out})
        self.p["reqs"].append(rec)
        return r

    # ---- constraints
    def con(self, cls, name=None, optional=False, **f):
        self._n += 1
        rec = {"name": name or f"c{self._n}", "cls": cls, "optional": optional, "top": True}
        rec.update(f)
        for k in ("x", "y"):
            if k in rec:
                self._mark(rec[k])
        for k in ("xs", "ys"):
            if k in rec:
                for o in rec[k]:
                    self._mark(o)
        self.p["cons"].append(rec)
        return len(self.p["cons"])

    def _mark(self, o):
        if o["t"] == "con":
            self.p["cons"][o["i"] - 1]["top"] = False

    # ---- buffers
    def buffer(self, name, concurrent=False, initial=None, final=None, lower=None, upper=None,
               init_lo=0, init_hi=3):
        self.p["buffers"].append({"name": name, "concurrent": concurrent, "initial": opt(initial),
                                  "final": opt(final), "lower": opt(lower), "upper": opt(upper),
                                  "init_lo": init_lo, "init_hi": init_hi, "ops": []})
        return len(self.p["buffers"])

    def load(self, task, buffer, q, name=None):
        self._n += 1
        self.p["buffers"][buffer - 1]["ops"].append({"task": task, "q": q, "kind": "load",
                                                     "name": name or f"bl{self._n}"})

    def unload(self, task, buffer, q, name=None):
        self._n += 1
        self.p["buffers"][buffer - 1]["ops"].append({"task": task, "q": q, "kind": "unload",
                                                     "name": name or f"bu{self._n}"})

    # ---- indicators / objectives
    def ind(self, cls, name=None, **f):
        self._n += 1
        rec = {"name": name or f"i{self._n}", "cls": cls}
        rec.update(f)
        self.p["inds"].append(rec)
        return len(self.p["inds"])

    def obj(self, cls, ind=0, kind="minimize", weight=1, **f):
        rec = {"cls": cls, "ind": ind, "kind": kind, "weight": weight}
        rec.update(f)
        self.p["objs"].append(rec)
        return len(self.p["objs"])

    def done(self):
        return copy.deepcopy(self.p)


def number(problems):
    for i, p in enumerate(problems):
        p["id"] = i + 1
    return problems


def dump(problems, path):
    with open(path, "w") as f:
        json.dump(problems, f)
