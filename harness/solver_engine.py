"""Engine of the solver-object properties (C07, C12, C13, C15, C19).

A case = (problem, solver configuration, list of call sequences).  For every problem TLC
enumerates V(P) from Timeline (the oracle); the scenario of spec/Solver.tla is built from it;
the real solver is driven along each call sequence with the recording proxy; SolverTrace
validates the recorded history (and evaluates the properties in every state), TimelineTrace
validates every returned solution.
"""
from __future__ import annotations

import json
import multiprocessing as mp
import re
import sys
import os
import time
import traceback

sys.path.insert(0, os.path.dirname(os.path.abspath(__file__)))

import scenarios as SC  # noqa: E402
import tlc  # noqa: E402

_CASES = None

LIA_LOGICS = {None, "QF_LIA", "QF_AUFLIA", "QF_ALIA", "QF_AUFLIRA", "QF_AUFNIA", "QF_AUFNIRA", "QF_ANIA",
              "QF_LIRA", "QF_UFLIA", "QF_UFNIA", "QF_UFNIRA", "QF_NIRA"}


def _run_case(i):
    import drive
    case = _CASES[i]
    out = {"i": i, "runs": [], "error": None}
    try:
        for calls in case["sequences"]:
            r = drive.run(case["problem"], case["index"], calls, case["solver_kw"], tracked=case["tracked"],
                          clock_step=case.get("clock_step"), later_problem=case.get("later_problem", False))
            out["runs"].append({"calls": calls, "events": r["events"], "solutions": r["solutions"],
                                "stdout": r["stdout"] if case.get("keep_stdout") else ""})
    except Exception as ex:
        out["error"] = f"{type(ex).__name__}: {ex}\n" + traceback.format_exc(limit=6)
    return out


def prepare(problems, tlc_timeout=3000):
    """Enumerates V for all problems; returns (V, stats)."""
    return tlc.enumerate_V(problems, timeout=tlc_timeout)


def run_cases(cases, V, procs=16, tlc_timeout=3000):
    """cases: list of dict(problem, solver_kw, mode, priority, max_iter, tracked, sequences,
    clock_step, unknown_ok, outside_fragment).  Returns results with verdicts attached."""
    global _CASES
    scen, usable = [], []
    skipped_unspec = 0
    for c in cases:
        p = c["problem"]
        vs = V[p["id"]]
        if any(v.get("unspec") for v in vs.values()):
            skipped_unspec += 1
            continue
        sc, index, mixed = SC.from_problem(p, vs, c.get("mode", "incremental"), c.get("priority", "pareto"),
                                           c.get("max_iter"), c.get("tracked", ()), c.get("unknown_ok", False),
                                           c.get("outside_fragment", False),
                                           # a time-limit stop is only a legal explanation when the scripted clock is in use
                                           time_stops=c.get("clock_step") is not None)
        if mixed:
            skipped_unspec += 1
            continue
        sc["id"] = len(scen) + 1
        scen.append(sc)
        c = dict(c, index=index, sid=sc["id"], tracked=list(c.get("tracked", ())))
        usable.append(c)
    import processscheduler  # noqa: F401
    _CASES = usable
    t0 = time.time()
    ctx = mp.get_context("fork")
    with ctx.Pool(min(procs, max(1, len(usable)))) as pool:
        outs = pool.map(_run_case, range(len(usable)), chunksize=1)
    t_impl = time.time() - t0
    straces, sowners = [], []
    ttraces, towners = [], []
    problems, pidx = [], {}
    for ci, o in enumerate(outs):
        c = usable[ci]
        for ri, r in enumerate(o["runs"]):
            straces.append({"sid": c["sid"], "events": r["events"]})
            sowners.append((ci, ri))
            for si, s in enumerate(r["solutions"]):
                pid = c["problem"]["id"]
                if pid not in pidx:
                    problems.append(c["problem"])
                    pidx[pid] = len(problems)
                tr = dict(s["trace"], pid=pidx[pid])
                ttraces.append(tr)
                towners.append((ci, ri, si))
    sver, st_s = tlc.validate_solver_traces(scen, straces, timeout=tlc_timeout)
    tver, st_t = tlc.validate_traces(problems, ttraces, timeout=tlc_timeout) if ttraces else ([], {"generated": 0, "distinct": 0, "wall_s": 0})
    for (ci, ri), v in zip(sowners, sver):
        outs[ci]["runs"][ri]["verdict"] = v
    for (ci, ri, si), v in zip(towners, tver):
        outs[ci]["runs"][ri]["solutions"][si]["verdict"] = v
    return {"cases": usable, "outs": outs, "scenarios": scen,
            "stats": {"solver_trace": st_s, "timeline_trace": st_t, "t_impl": round(t_impl, 1),
                      "n_solver_traces": len(straces), "n_solution_traces": len(ttraces),
                      "skipped_unspecified": skipped_unspec}}


PROP_OF = {"C13_false_is_truthful": "C13", "C13_returned_is_valid": "C13", "C07_optimal": "C07",
           "C07_no_worse_than_incumbents": "C07", "C07_early_stop_still_valid": "C07",
           "C12_distinct": "C12", "C12_fails_only_when_exhausted": "C12", "C12_variable_differs": "C12"}


def violations(res, prop, accept_props=None, include_rejects=True, include_solutions=True):
    """Violation records for property `prop` from run_cases results."""
    out = []
    for c, o in zip(res["cases"], res["outs"]):
        p = c["problem"]
        cfg = {"solver_kw": c["solver_kw"], "mode": c.get("mode"), "priority": c.get("priority"),
               "max_iter": c.get("max_iter"), "clock_step": c.get("clock_step")}
        if o["error"]:
            out.append({"kind": "exception", "summary": o["error"].splitlines()[0], "clauses": ["driver"], "problem": p,
                        "tag": p["tag"], "detail": {"config": cfg, "error": o["error"]}})
            continue
        for r in o["runs"]:
            v = r["verdict"]
            names = [n for n in v["violates"] if PROP_OF.get(n) == prop or (accept_props and PROP_OF.get(n) in accept_props)]
            if names:
                out.append({"kind": "protocol", "summary": f"history {r['calls']} violates {','.join(names)}",
                            "clauses": names, "problem": p, "tag": p["tag"],
                            "detail": {"config": cfg, "calls": r["calls"], "events": r["events"]}})
            if include_rejects and not v["accept"]:
                out.append({"kind": "protocol", "summary": f"history {r['calls']} is not a behaviour of Solver: {','.join(v['why'])} at event {v['l']}",
                            "clauses": v["why"], "problem": p, "tag": p["tag"],
                            "detail": {"config": cfg, "calls": r["calls"], "events": r["events"]}})
            if include_solutions:
                for s in r["solutions"]:
                    sv = s.get("verdict")
                    if sv and not sv["accept"]:
                        out.append({"kind": "returns-invalid", "summary": "returned solution rejected by TimelineTrace: " + ",".join(sv["why"]),
                                    "clauses": sv["why"], "problem": p, "tag": p["tag"],
                                    "detail": {"config": cfg, "calls": r["calls"], "trace": s["trace"], "solution": s["json"]}})
    return out
