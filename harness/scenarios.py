"""Scenarios for spec/Solver.tla.

  small_scenarios()      every small oracle (for the exhaustive check of the specification itself)
  from_problem(p, V, …)  the oracle of a real problem: its valid schedules as enumerated by TLC
                         from Timeline, with objective values, timing classes and tracked variables
"""
from __future__ import annotations

import itertools


def small_scenarios(max_pts=3, objs=(0, 1, 2)):
    out = []

    def partitions(n):
        # restricted growth strings
        def rec(i, cur, mx):
            if i == n:
                yield list(cur)
                return
            for k in range(mx + 2):
                cur.append(k)
                yield from rec(i + 1, cur, max(mx, k))
                cur.pop()
        yield from rec(0, [], -1)

    for n in range(0, max_pts + 1):
        for timing in partitions(n):
            # no objective
            out.append(dict(pts=[dict(s=i + 1, t=timing[i] + 1, o=[0], x=[timing[i]]) for i in range(n)],
                            dir="none", weights=[], bound=[], mode="sat", priority="pareto",
                            max_iter=[], unknown_ok=False, outside_fragment=False, time_stops=True, nvars=1))
            for o in itertools.product(objs, repeat=n):
                for d in ("min", "max"):
                    for mode, prio in (("incremental", "pareto"), ("optimize", "weight"), ("optimize", "pareto")):
                        for mi in ([], [1], [2]):
                            if mode != "incremental" and mi:
                                continue
                            for bound in ([], [0 if d == "min" else 2]):
                                if mode != "incremental" and bound:
                                    continue
                                out.append(dict(
                                    pts=[dict(s=i + 1, t=timing[i] + 1, o=[o[i]], x=[timing[i]]) for i in range(n)],
                                    dir=d, weights=[1], bound=bound, mode=mode, priority=prio,
                                    max_iter=mi, unknown_ok=False, outside_fragment=False, time_stops=True, nvars=1))
    # two objectives (weighted sum / lexicographic / pareto) on 2-3 points
    for n in (2, 3):
        for o1 in itertools.product((0, 1), repeat=n):
            for o2 in itertools.product((0, 1, 2), repeat=n):
                for mode, prio in (("incremental", "pareto"), ("optimize", "weight"), ("optimize", "lex"), ("optimize", "pareto")):
                    out.append(dict(pts=[dict(s=i + 1, t=i + 1, o=[o1[i], o2[i]], x=[i]) for i in range(n)],
                                    dir="min", weights=[1, 2], bound=[], mode=mode, priority=prio,
                                    max_iter=[], unknown_ok=False, outside_fragment=False, time_stops=True, nvars=1))
    # solvers that may answer "unknown" / logics outside the arithmetic fragment (the Check*Unknown /
    # *OutsideFragment actions; TLC's action coverage showed that no other scenario enables them)
    for n in (0, 1, 2):
        for timing in partitions(n):
            for unknown_ok, outside in ((True, False), (False, True), (True, True)):
                out.append(dict(pts=[dict(s=i + 1, t=timing[i] + 1, o=[0], x=[timing[i]]) for i in range(n)],
                                dir="none", weights=[], bound=[], mode="sat", priority="pareto",
                                max_iter=[], unknown_ok=unknown_ok, outside_fragment=outside, time_stops=True, nvars=1))
                for o in itertools.product((0, 1), repeat=n):
                    out.append(dict(pts=[dict(s=i + 1, t=timing[i] + 1, o=[o[i]], x=[timing[i]]) for i in range(n)],
                                    dir="min", weights=[1], bound=[], mode="incremental", priority="pareto",
                                    max_iter=[], unknown_ok=unknown_ok, outside_fragment=outside, time_stops=True, nvars=1))
    for i, s in enumerate(out):
        s["id"] = i + 1
    return out


def timing_key(v):
    return tuple((bool(sc), s if sc else -1, e if sc else -1) for sc, s, e in zip(v["sched"], v["s"], v["e"]))


def objective_values(p, v):
    """List (one entry per declared objective) of the lists of admissible values for schedule v."""
    vals = []
    for o in p["objs"]:
        if o["cls"] == "ObjectiveMinimizeMakespan":
            m = max([e for sc, e in zip(v["sched"], v["e"]) if sc] + [0])
            vals.append(list(range(m, p["H"] + 1)))
        else:
            lo, hi = v["ind"][o["ind"] - 1]
            vals.append(list(range(lo, hi + 1)))
    return vals


def from_problem(p, V, mode, priority="pareto", max_iter=None, tracked=(), unknown_ok=False, outside_fragment=False, time_stops=False):
    """tracked: list of ("start"|"end", task index 1-based)."""
    keys = list(V.keys())
    timing_ids = {}
    pts, index = [], {}
    rounding = False
    for si, k in enumerate(keys):
        v = V[k]
        t = timing_ids.setdefault(timing_key(v), len(timing_ids) + 1)
        x = []
        for kind, ti in tracked:
            x.append((v["s"] if kind == "start" else v["e"])[ti - 1] if v["sched"][ti - 1] else -1000 - ti)
        ovals = objective_values(p, v) if p["objs"] else [[0]]
        for o, vals in zip(p["objs"], ovals):
            if o["cls"] != "ObjectiveMinimizeMakespan" and len(vals) > 1:
                rounding = True  # a rounding indicator as objective: which value is reached is unspecified
        for combo in itertools.product(*ovals):
            pts.append(dict(s=si + 1, t=t, o=list(combo), x=x or [0]))
            index[(k, tuple(combo))] = len(pts)
    if p["objs"]:
        kinds = {o["kind"] for o in p["objs"]}
        d = "min" if p["objs"][-1]["kind"] == "minimize" else "max"
        weights = [o["weight"] for o in p["objs"]]
        bound = []
        if len(p["objs"]) == 1 and p["objs"][0]["ind"]:
            cls = p["inds"][p["objs"][0]["ind"] - 1]["cls"]
            if cls == "IndicatorResourceUtilization":
                bound = [0 if d == "min" else 100]
            if p["inds"][p["objs"][0]["ind"] - 1].get("bounds"):
                bnd = p["inds"][p["objs"][0]["ind"] - 1]["bounds"]
                bound = [bnd[0] if d == "min" else bnd[1]]
        mixed = len(kinds) > 1
    else:
        d, weights, bound, mixed = "none", [], [], False
    sc = dict(pts=pts, dir=d, weights=weights, bound=bound, mode=mode if p["objs"] else "sat",
              priority=priority, max_iter=[] if max_iter is None else [max_iter], unknown_ok=unknown_ok,
              outside_fragment=outside_fragment, time_stops=time_stops,
              nvars=max(1, len(tracked)))
    return sc, index, mixed or rounding
