"""Neutral description -> real processscheduler objects (the replay engine).

Everything is created through the public constructors, in the order of the description:
problem, tasks, workers / cumulative workers, selections, requirements, buffers and their
load/unload constraints, indicators, constraints, objectives.
"""
from __future__ import annotations

import datetime
import io
import contextlib

import z3

import processscheduler as ps


class Built:
    def __init__(self):
        self.problem = None
        self.tasks = []
        self.workers = []      # unit workers, index-aligned with p["workers"]
        self.cumuls = []
        self.selects = []      # user-declared SelectWorkers, or None until created
        self.req_objs = []     # the SelectWorkers instance actually attached per requirement (or Worker)
        self.cons = []
        self.buffers = []
        self.bufops = []       # (buffer idx, op idx, constraint)
        self.inds = []
        self.objs = []
        self.errors = []


def term(b: Built, x):
    op = x["op"]
    if op == "const":
        return x["v"]
    if op == "start":
        return b.tasks[x["task"] - 1]._start
    if op == "end":
        return b.tasks[x["task"] - 1]._end
    if op == "dur":
        t = b.tasks[x["task"] - 1]
        return t._end - t._start
    if op == "add":
        return term(b, x["a"]) + term(b, x["b"])
    if op == "sub":
        return term(b, x["a"]) - term(b, x["b"])
    if op == "mul":
        return x["k"] * term(b, x["a"])
    raise ValueError(op)


def boolean(b: Built, x):
    op = x["op"]
    if op in ("pytrue", "pyfalse"):
        return op == "pytrue"      # a plain Python bool (Implies / IfThenElse: condition: Union[z3.BoolRef, bool])
    if op == "true":
        return z3.BoolVal(True)
    if op == "false":
        return z3.BoolVal(False)
    if op in ("le", "lt", "ge", "gt", "eq", "ne"):
        l, r = term(b, x["a"]), term(b, x["b"])
        if isinstance(l, int) and isinstance(r, int):
            l = z3.IntVal(l)
        return {"le": lambda: l <= r, "lt": lambda: l < r, "ge": lambda: l >= r,
                "gt": lambda: l > r, "eq": lambda: l == r, "ne": lambda: l != r}[op]()
    if op == "sched":
        s = b.tasks[x["task"] - 1]._scheduled
        return s if not isinstance(s, bool) else z3.BoolVal(s)
    if op == "not":
        return z3.Not(boolean(b, x["x"]))
    if op == "and":
        return z3.And([boolean(b, y) for y in x["xs"]])
    if op == "or":
        return z3.Or([boolean(b, y) for y in x["xs"]])
    raise ValueError(op)


def operand(b: Built, o):
    return b.cons[o["i"] - 1] if o["t"] == "con" else boolean(b, o["e"])


def resource(b: Built, r):
    return b.workers[r["i"] - 1] if r["t"] == "worker" else b.cumuls[r["i"] - 1]


def cost_fn(c):
    if not c.get("given", True):
        return None
    if c["k"] == "const":
        return ps.ConstantFunction(value=c["c"][0])
    if c["k"] == "lin":
        return ps.LinearFunction(slope=c["c"][0], intercept=c["c"][1])
    if c["k"] == "poly":
        return ps.PolynomialFunction(coefficients=list(c["c"]))
    raise ValueError(c)


def make_task(tk):
    kw = dict(name=tk["name"], optional=tk["optional"], priority=tk["priority"], work_amount=tk["work"])
    if tk["release"]:
        kw["release_date"] = tk["release"][0]
    if tk["due"]:
        kw["due_date"] = tk["due"][0]
        kw["due_date_is_deadline"] = tk["deadline"]
    if tk["kind"] == "F":
        return ps.FixedDurationTask(duration=tk["dur"], **kw)
    if tk["kind"] == "Z":
        return ps.ZeroDurationTask(**kw)
    if tk["max"]:
        kw["max_duration"] = tk["max"][0]
    if tk["allowed"]:
        kw["allowed_durations"] = list(tk["allowed"])
    return ps.VariableDurationTask(min_duration=tk["min"], **kw)


def make_constraint(b: Built, c):
    cls = c["cls"]
    kw = dict(name=c["name"], optional=c["optional"])
    T = lambda i: b.tasks[i - 1]
    if cls in ("TaskStartAt", "TaskEndAt"):
        return getattr(ps, cls)(task=T(c["task"]), value=term(b, c["vexpr"]) if "vexpr" in c else c["value"], **kw)
    if cls in ("TaskStartAfter", "TaskEndBefore"):
        return getattr(ps, cls)(task=T(c["task"]), value=term(b, c["vexpr"]) if "vexpr" in c else c["value"], kind=c["kind"], **kw)
    if cls == "TaskPrecedence":
        before = b.cons[c["before_g"] - 1] if c.get("before_g") else T(c["before"])
        after = b.cons[c["after_g"] - 1] if c.get("after_g") else T(c["after"])
        return ps.TaskPrecedence(task_before=before, task_after=after,
                                 offset=c["offset"], kind=c["kind"], **kw)
    if cls in ("TasksStartSynced", "TasksEndSynced", "TasksDontOverlap"):
        return getattr(ps, cls)(task_1=T(c["t1"]), task_2=T(c["t2"]), **kw)
    if cls == "TasksContiguous":
        return ps.TasksContiguous(list_of_tasks=[T(i) for i in c["tasks"]], **kw)
    if cls in ("UnorderedTaskGroup", "OrderedTaskGroup"):
        if c["interval"]:
            kw["time_interval"] = tuple(c["interval"][0])
        if c["length"]:
            kw["time_interval_length"] = c["length"][0]
        if cls == "OrderedTaskGroup":
            kw["kind"] = c["kind"]
        return getattr(ps, cls)(list_of_tasks=[T(i) for i in c["tasks"]], **kw)
    if cls == "ScheduleNTasksInTimeIntervals":
        return ps.ScheduleNTasksInTimeIntervals(
            list_of_tasks=[T(i) for i in c["tasks"]], nb_tasks_to_schedule=c["n"],
            list_of_time_intervals=[tuple(iv) for iv in c["intervals"]], kind=c["kind"], **kw)
    if cls == "OptionalTaskForceSchedule":
        return ps.OptionalTaskForceSchedule(task=T(c["task"]), to_be_scheduled=c["flag"], **kw)
    if cls == "OptionalTaskConditionSchedule":
        return ps.OptionalTaskConditionSchedule(task=T(c["task"]), condition=boolean(b, c["cond"]), **kw)
    if cls == "OptionalTasksDependency":
        return ps.OptionalTasksDependency(task_1=T(c["t1"]), task_2=T(c["t2"]), **kw)
    if cls == "ForceScheduleNOptionalTasks":
        return ps.ForceScheduleNOptionalTasks(list_of_optional_tasks=[T(i) for i in c["tasks"]],
                                              nb_tasks_to_schedule=c["n"], kind=c["kind"], **kw)
    if cls == "WorkLoad":
        return ps.WorkLoad(resource=resource(b, c["res"]),
                           dict_time_intervals_and_bound={(iv[0], iv[1]): iv[2] for iv in c["intervals"]},
                           kind=c["kind"], **kw)
    if cls in ("ResourceUnavailable", "ResourceInterrupted"):
        return getattr(ps, cls)(resource=resource(b, c["res"]),
                                list_of_time_intervals=[tuple(iv) for iv in c["intervals"]], **kw)
    if cls in ("ResourcePeriodicallyUnavailable", "ResourcePeriodicallyInterrupted"):
        return getattr(ps, cls)(resource=resource(b, c["res"]),
                                list_of_time_intervals=[tuple(iv) for iv in c["intervals"]],
                                period=c["period"], start=c["start"], offset=c["offset"],
                                end=c["end"][0] if c["end"] else None, **kw)
    if cls == "ResourceNonDelay":
        return ps.ResourceNonDelay(resource=resource(b, c["res"]), **kw)
    if cls == "ResourceTasksDistance":
        if c["has_intervals"]:
            kw["list_of_time_intervals"] = [tuple(iv) for iv in c["intervals"]]
        return ps.ResourceTasksDistance(resource=resource(b, c["res"]), distance=c["distance"],
                                        mode=c["mode"], **kw)
    if cls in ("SameWorkers", "DistinctWorkers"):
        return getattr(ps, cls)(select_workers_1=b.req_objs[c["r1"] - 1],
                                select_workers_2=b.req_objs[c["r2"] - 1], **kw)
    if cls == "ConstraintFromExpression":
        return ps.ConstraintFromExpression(expression=boolean(b, c["expr"]), **kw)
    if cls == "Not":
        return ps.Not(constraint=operand(b, c["x"]), **kw)
    if cls in ("And", "Or"):
        return getattr(ps, cls)(list_of_constraints=[operand(b, o) for o in c["xs"]], **kw)
    if cls == "Xor":
        return ps.Xor(constraint_1=operand(b, c["x"]), constraint_2=operand(b, c["y"]), **kw)
    if cls == "Implies":
        return ps.Implies(condition=boolean(b, c["cond"]),
                          list_of_constraints=[operand(b, o) for o in c["xs"]], **kw)
    if cls == "IfThenElse":
        return ps.IfThenElse(condition=boolean(b, c["cond"]),
                             then_list_of_constraints=[operand(b, o) for o in c["xs"]],
                             else_list_of_constraints=[operand(b, o) for o in c["ys"]], **kw)
    if cls == "ForceApplyNOptionalConstraints":
        return ps.ForceApplyNOptionalConstraints(
            list_of_optional_constraints=[b.cons[i - 1] for i in c["cons"]],
            nb_constraints_to_apply=c["n"], kind=c["kind"], **kw)
    if cls == "IndicatorTarget":
        return ps.IndicatorTarget(indicator=b.inds[c["ind"] - 1], value=c["value"], **kw)
    if cls == "IndicatorBounds":
        if c["lower"]:
            kw["lower_bound"] = c["lower"][0]
        if c["upper"]:
            kw["upper_bound"] = c["upper"][0]
        return ps.IndicatorBounds(indicator=b.inds[c["ind"] - 1], **kw)
    raise ValueError(cls)


def make_indicator(b: Built, ind):
    cls = ind["cls"]
    T = lambda i: b.tasks[i - 1]
    if ind.get("by_objective"):
        return None  # created by the objective that refers to it
    if cls in ("IndicatorResourceUtilization", "IndicatorNumberTasksAssigned", "IndicatorResourceIdle"):
        return getattr(ps, cls)(resource=resource(b, ind["res"]))
    if cls == "IndicatorResourceCost":
        return ps.IndicatorResourceCost(list_of_resources=[resource(b, r) for r in ind["ress"]])
    if cls in ("IndicatorTardiness", "IndicatorEarliness", "IndicatorNumberOfTardyTasks",
               "IndicatorMaximumLateness"):
        if ind.get("all_tasks"):
            return getattr(ps, cls)()
        return getattr(ps, cls)(list_of_tasks=[T(i) for i in ind["tasks"]])
    if cls == "IndicatorFromMathExpression":
        kw = {}
        if ind.get("bounds"):
            kw["bounds"] = tuple(ind["bounds"])
        return ps.IndicatorFromMathExpression(name=ind["name"], expression=term(b, ind["expr"]), **kw)
    if cls in ("IndicatorMaxBufferLevel", "IndicatorMinBufferLevel"):
        return getattr(ps, cls)(buffer=b.buffers[ind["buffer"] - 1])
    return None  # created by an objective


def make_objective(b: Built, o, p):
    cls = o["cls"]
    before = set(b.problem.indicators)
    if cls == "ObjectiveMinimizeIndicator":
        obj = ps.ObjectiveMinimizeIndicator(target=b.inds[o["ind"] - 1], weight=o["weight"])
    elif cls == "ObjectiveMaximizeIndicator":
        obj = ps.ObjectiveMaximizeIndicator(target=b.inds[o["ind"] - 1], weight=o["weight"])
    elif cls == "ObjectiveMinimizeMakespan":
        obj = ps.ObjectiveMinimizeMakespan()
    elif cls in ("ObjectiveMaximizeResourceUtilization",):
        obj = ps.ObjectiveMaximizeResourceUtilization(resource=resource(b, o["res"]))
    elif cls == "ObjectiveMinimizeResourceCost":
        obj = ps.ObjectiveMinimizeResourceCost(list_of_resources=[resource(b, r) for r in o["ress"]])
    elif cls in ("ObjectiveMinimizeFlowtime", "ObjectivePriorities", "ObjectiveTasksStartEarliest",
                 "ObjectiveTasksStartLatest", "ObjectiveMinimizeGreatestStartTime"):
        sub = p["inds"][o["ind"] - 1].get("tasks") if o.get("ind") else None
        if sub and len(sub) < len(p["tasks"]) and cls in ("ObjectiveMinimizeFlowtime", "ObjectiveTasksStartLatest",
                                                            "ObjectiveMinimizeGreatestStartTime"):
            obj = getattr(ps, cls)(list_of_tasks=[b.tasks[i - 1] for i in sub])   # the objective over a subset of the tasks
        else:
            obj = getattr(ps, cls)()
    elif cls == "ObjectiveMinimizeFlowtimeSingleResource":
        ind = p["inds"][o["ind"] - 1]
        kwf = {} if ind.get("whole") else {"time_interval": [ind["lo"], ind["hi"]]}
        obj = ps.ObjectiveMinimizeFlowtimeSingleResource(resource=resource(b, ind["res"]), **kwf)
    elif cls in ("ObjectiveMaximizeMaxBufferLevel", "ObjectiveMinimizeMaxBufferLevel"):
        obj = getattr(ps, cls)(buffer=b.buffers[o["buffer"] - 1])
    else:
        raise ValueError(cls)
    created = [n for n in b.problem.indicators if n not in before]
    if o["ind"] and b.inds[o["ind"] - 1] is None:
        # the objective created its own indicator: bind it to the declared slot
        assert len(created) == 1, created
        b.inds[o["ind"] - 1] = b.problem.indicators[created[0]]
    return obj


def build(p, quiet=True, roundtrip=False, early_solver=None, two_phase=False, interleave=False, resolve=False,
          later_problem=False, other_midway=False) -> Built:
    """roundtrip=True: every task and plain worker is first created in a scratch problem, dumped with
    to_json() and re-created in the real problem with SchedulingProblem.add_from_json().

    Declaration-order variants (the model that results is the same, so V(P) is the same):
    early_solver=<solver kwargs>: the SchedulingSolver is created right after the (still empty) problem and the
        model is completed afterwards; make_solver() then hands out that solver;
    two_phase=True: the model is declared without the requirements / buffer accesses of the last task that has
        some, and without constraints, indicators and objectives; a first solver solves that part; the rest is
        declared afterwards (the caller then creates a NEW solver);
    other_midway=True: another problem is created (completely) BEFORE this one; it is solved in the middle of this
        problem's declaration (after the tasks, before everything else): solving a problem does not change where
        later declarations go;
    later_problem=True: ANOTHER, unrelated SchedulingProblem (other horizon, a task and a worker of its own) is created
        after this model is complete and before its solver is created (make_solver does it): a solver works on the
        problem it was given, not on the problem created last;
    resolve=True: the complete model is first solved by a solver of its own (thrown away); the caller then creates
        a NEW solver on the same problem;
    interleave=True: right after the first requirement on each plain worker, a resource constraint that cannot
        bind anything (ResourceUnavailable / WorkLoad beyond the horizon) is declared on it, before the other
        requirements."""
    b = Built()
    task_json, worker_json = [], {}
    if roundtrip:
        ps.SchedulingProblem(name="scratch")
        task_json = [make_task(tk).to_json() for tk in p["tasks"]]
        for i, w in enumerate(p["workers"]):
            if w["cumul"] == 0:
                kww = dict(name=w["name"], productivity=w["prod"])
                c = cost_fn(w["cost"])
                if c is not None:
                    kww["cost"] = c
                worker_json[i] = ps.Worker(**kww).to_json()
    kw = {"name": p["name"]}
    if p["user_horizon"]:
        kw["horizon"] = p["H"]
    if p.get("delta_time"):
        kw["delta_time"] = datetime.timedelta(seconds=p["delta_time"][0])
    if p.get("start_time"):
        kw["start_time"] = datetime.datetime.fromisoformat(p["start_time"][0])
    other = None
    if other_midway:
        other = ps.SchedulingProblem(name="OtherProblem", horizon=3)
        ot = ps.FixedDurationTask(name="OtherTask", duration=2)
        ot.add_required_resource(ps.Worker(name="OtherWorker"))
    b.problem = ps.SchedulingProblem(**kw)
    b.early_solver = None
    if early_solver is not None:
        with silence():
            b.early_solver = ps.SchedulingSolver(problem=b.problem, **early_solver)
    # the task whose requirements / buffer accesses are declared in the second phase
    late = None
    if two_phase:
        with_acc = sorted({r["task"] for r in p["reqs"]} | {op["task"] for bf in p["buffers"] for op in bf["ops"]})
        late = with_acc[-1] if with_acc else None
    interleave = interleave and p["user_horizon"]
    seen_workers = set()
    for i, tk in enumerate(p["tasks"]):
        b.tasks.append(b.problem.add_from_json(task_json[i]) if roundtrip else make_task(tk))
    if other is not None:
        with silence():
            ps.SchedulingSolver(problem=other).solve()
    # workers: plain ones directly, unit workers through their cumulative worker
    b.workers = [None] * len(p["workers"])
    done_cumul = set()
    for i, w in enumerate(p["workers"]):
        if w["cumul"] == 0 and roundtrip:
            b.workers[i] = b.problem.add_from_json(worker_json[i])
        elif w["cumul"] == 0:
            kww = dict(name=w["name"], productivity=w["prod"])
            c = cost_fn(w["cost"])
            if c is not None:
                kww["cost"] = c
            b.workers[i] = ps.Worker(**kww)
        elif w["cumul"] not in done_cumul:
            done_cumul.add(w["cumul"])
            cu = p["cumuls"][w["cumul"] - 1]
            kww = dict(name=cu["name"], size=cu["size"], productivity=cu["prod"])
            c = cost_fn(cu["cost"])
            if c is not None:
                kww["cost"] = c
            obj = ps.CumulativeWorker(**kww)
            while len(b.cumuls) < w["cumul"]:
                b.cumuls.append(None)
            b.cumuls[w["cumul"] - 1] = obj
            for j, ui in enumerate(cu["units"]):
                b.workers[ui - 1] = obj._cumulative_workers[j]
    for s in p["selects"]:
        members = s.get("members") or [{"t": "worker", "i": i} for i in s["workers"]]
        b.selects.append(ps.SelectWorkers(name=s["name"], list_of_workers=[resource(b, m) for m in members],
                                          nb_workers_to_select=s["n"], kind=s["kind"]))
    def declare_req(r):
        t = b.tasks[r["task"] - 1]
        if r["type"] == "worker":
            t.add_required_resource(b.workers[r["ref"] - 1], dynamic=r["dynamic"],
                                    delay_in=r["delay_in"], early_out=r["early_out"])
            req_objs[id(r)] = b.workers[r["ref"] - 1]
            if interleave and r["ref"] not in seen_workers:
                seen_workers.add(r["ref"])
                far = p["H"] + 2
                ps.ResourceUnavailable(resource=b.workers[r["ref"] - 1], list_of_time_intervals=[(far, far + 1)])
                ps.WorkLoad(resource=b.workers[r["ref"] - 1], dict_time_intervals_and_bound={(far, far + 1): 1}, kind="max")
        elif r["type"] == "select":
            t.add_required_resource(b.selects[r["ref"] - 1])
            req_objs[id(r)] = b.selects[r["ref"] - 1]
        else:
            before = set(b.problem.select_workers)
            t.add_required_resource(b.cumuls[r["ref"] - 1])
            new = [n for n in b.problem.select_workers if n not in before]
            req_objs[id(r)] = b.problem.select_workers[new[0]] if new else None

    req_objs = {}
    for r in p["reqs"]:
        if r["task"] != late:
            declare_req(r)
    for bi, bf in enumerate(p["buffers"]):
        cls = ps.ConcurrentBuffer if bf["concurrent"] else ps.NonConcurrentBuffer
        if bf.get("subclass"):
            cls = type("User" + cls.__name__, (cls,), {})     # a user-defined subclass (no change of behaviour)
        kwb = {"name": bf["name"]}
        for k, f in (("initial", "initial_level"), ("final", "final_level"),
                     ("lower", "lower_bound"), ("upper", "upper_bound")):
            if bf[k]:
                kwb[f] = bf[k][0]
        b.buffers.append(cls(**kwb))
    def declare_ops(when_late):
        for bi, bf in enumerate(p["buffers"]):
            for oi, op in enumerate(bf["ops"]):
                if (op["task"] == late) != when_late:
                    continue
                cls = ps.TaskLoadBuffer if op["kind"] == "load" else ps.TaskUnloadBuffer
                b.bufops.append((bi, oi, cls(name=op["name"], task=b.tasks[op["task"] - 1],
                                             buffer=b.buffers[bi], quantity=op["q"])))

    declare_ops(False)
    if late is not None:
        # first phase: solve what has been declared so far with a solver of its own, then complete the model
        with silence():
            try:
                ps.SchedulingSolver(problem=b.problem).solve()
            except Exception:  # whatever the partial model gives is not judged
                pass
        for r in p["reqs"]:
            if r["task"] == late:
                declare_req(r)
        declare_ops(True)
        b.bufops.sort(key=lambda x: (x[0], x[1]))
    b.req_objs = [req_objs[id(r)] for r in p["reqs"]]
    for ind in p["inds"]:
        b.inds.append(make_indicator(b, ind))
    for c in p["cons"]:
        b.cons.append(make_constraint(b, c))
    for o in p["objs"]:
        b.objs.append(make_objective(b, o, p))
    b.later_problem = bool(later_problem)
    b.later_horizon = p["H"] + 7
    if resolve:
        with silence():
            try:
                ps.SchedulingSolver(problem=b.problem).solve()
            except Exception:  # what the first solver answers is not judged here
                pass
    return b


@contextlib.contextmanager
def silence():
    buf = io.StringIO()
    with contextlib.redirect_stdout(buf):
        yield buf


def make_solver(b: Built, **kw):
    if getattr(b, "early_solver", None) is not None:
        s, b.early_solver = b.early_solver, None    # created before the model was declared (build(early_solver=...))
        return s
    if getattr(b, "later_problem", False):
        b.later_problem = False
        other = ps.SchedulingProblem(name="LaterProblem", horizon=b.later_horizon)
        t = ps.FixedDurationTask(name="LaterTask", duration=b.later_horizon)
        t.add_required_resource(ps.Worker(name="LaterWorker"))
    with silence():
        s = ps.SchedulingSolver(problem=b.problem, **kw)
    return s
