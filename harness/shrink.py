"""Development helper: reduce a (problem, lost schedule) pair.

Given a problem description p and an abstract schedule v that the specification admits but the
implementation's assertions do not, drop constraints / buffers / requirements one at a time as long
as the schedule (projected on what is left) is still valid for TLC and still refused by the
implementation.  Prints the reduced problem.  Usage: shrink.py <dump.json> <problem id> [lost index]
(the dump is what triage.py / mixed runs write: {"problems": [...], "results": [...]}).
"""
from __future__ import annotations

import copy
import json
import sys
import os

sys.path.insert(0, os.path.dirname(os.path.abspath(__file__)))

import z3  # noqa: E402
import admitted as A  # noqa: E402
import project as PJ  # noqa: E402
import tlc  # noqa: E402


def refused(p, v):
    b, s = A.initialized_solver(copy.deepcopy(p))
    z = A.fresh_z3(s, p, b)
    z.add(PJ.match(b, p, v))
    return z.check() == z3.unsat


def in_V(p, v):
    V, _ = tlc.enumerate_V([dict(copy.deepcopy(p), id=1)])
    return tlc.key_of(v) in {tlc.key_of(x) for x in V[1].values() if not x.get("unspec")}


def referenced(p):
    out = set()
    for c in p["cons"]:
        for k in ("x", "y"):
            if k in c and c[k]["t"] == "con":
                out.add(c[k]["i"])
        for k in ("xs", "ys"):
            for o in c.get(k, []):
                if o["t"] == "con":
                    out.add(o["i"])
        for i in c.get("cons", []):
            out.add(i)
        for k in ("before_g", "after_g"):
            if c.get(k):
                out.add(c[k])
    return out


def drop_con(p, v, i):
    """remove constraint i (1-based) when nothing refers to a constraint at or after it"""
    if any(r >= i for r in referenced(p)):
        return None
    q = copy.deepcopy(p)
    del q["cons"][i - 1]
    w = dict(v, ap=[a for k, a in enumerate(v["ap"]) if k != i - 1])
    return q, w


def drop_buffer(p, v, i):
    q = copy.deepcopy(p)
    del q["buffers"][i]
    w = dict(v, lv0=[a for k, a in enumerate(v["lv0"]) if k != i], hist=[a for k, a in enumerate(v.get("hist", [])) if k != i])
    return q, w


def main():
    d = json.load(open(sys.argv[1]))
    pid = int(sys.argv[2])
    k = int(sys.argv[3]) if len(sys.argv) > 3 else 0
    p = next(x for x in d["problems"] if x["id"] == pid)
    r = next(x for x in d["results"] if x["id"] == pid)
    v = r["lost"][k]
    p = dict(p, id=1, inds=[], objs=[])
    v = dict(v, ind=[])
    assert refused(p, v), "not refused by the implementation"
    assert in_V(p, v), "not in V(P)"
    changed = True
    while changed:
        changed = False
        for i in range(len(p["cons"]), 0, -1):
            r = drop_con(p, v, i)
            if r and refused(*r) and in_V(*r):
                p, v = r
                changed = True
                break
        if changed:
            continue
        for i in range(len(p["buffers"]) - 1, -1, -1):
            r = drop_buffer(p, v, i)
            if refused(*r) and in_V(*r):
                p, v = r
                changed = True
                break
    print("H", p["H"])
    for t in p["tasks"]:
        print("  T", {k: x for k, x in t.items() if x not in ([], 0, False) or k in ("kind", "dur")})
    for rq in p["reqs"]:
        print("  R task", rq["task"], rq["type"], rq["ref"], rq["kind"], rq["n"], "dyn" if rq["dynamic"] else "")
    print("  W", [(w["name"], w["prod"]) for w in p["workers"]])
    for c in p["cons"]:
        print("  C", c)
    for b in p["buffers"]:
        print("  B", b)
    print("  lost:", {k: v[k] for k in ("sched", "s", "e", "used", "bs", "be", "ap", "lv0")})
    if len(sys.argv) > 4:
        json.dump({"problem": p, "v": v}, open(sys.argv[4], "w"))


if __name__ == "__main__":
    main()
