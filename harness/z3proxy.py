"""A recording proxy for the z3 solver object held by a SchedulingSolver (OmniLink style:
the library is not modified; the proxy is substituted for solver._solver right after
initialize() has created it)."""
from __future__ import annotations

import z3


class Proxy:
    def __init__(self, inner, log, on_model):
        object.__setattr__(self, "_inner", inner)
        object.__setattr__(self, "_log", log)
        object.__setattr__(self, "_on_model", on_model)
        object.__setattr__(self, "_after_push", False)

    def __getattr__(self, name):
        return getattr(self._inner, name)

    def check(self, *a):
        r = self._inner.check(*a)
        ev = {"e": "check", "r": str(r), "w": 0}
        if r == z3.sat:
            ev["w"] = self._on_model(self._inner.model())
        elif r == z3.unknown:
            ev["r"] = "unknown"
        self._log.append(ev)
        return r

    def push(self):
        object.__setattr__(self, "_after_push", True)
        return self._inner.push()

    def pop(self, *a):
        self._log.append({"e": "pop"})
        return self._inner.pop(*a)

    def _note_add(self, a):
        if self._after_push:
            object.__setattr__(self, "_after_push", False)
            b = None
            try:
                x = a[0] if isinstance(a, (list, tuple)) else a
                b = x.arg(1).as_long()
            except Exception:
                pass
            self._log.append({"e": "push", "b": b if b is not None else -999999})

    def add(self, *a):
        self._note_add(a[0] if len(a) == 1 else a)
        return self._inner.add(*a)

    def assert_and_track(self, a, p):
        self._note_add(a)
        return self._inner.assert_and_track(a, p)


def install(solver, log, on_model):
    """Wraps solver._solver as soon as initialize() has created it (now, or lazily)."""
    if solver._solver is not None:
        solver._solver = Proxy(solver._solver, log, on_model)
        return
    orig = solver.initialize

    def initialize():
        orig()
        if not isinstance(solver._solver, Proxy):
            solver._solver = Proxy(solver._solver, log, on_model)

    object.__setattr__(solver, "initialize", initialize)
