"""Drives ONE real SchedulingSolver through a sequence of public calls and records the trace
that spec/SolverTrace.tla validates (public calls and results + every z3 interaction seen by
the recording proxy)."""
from __future__ import annotations

import json
import time as _time
import warnings

import z3

import admitted as A
import build as B
import project as PJ
import tlc
import z3proxy


class ScriptedClock:
    """Replaces time.perf_counter inside processscheduler.solver: every check() appears to take
    `step` seconds, so the time-limit branches of the incremental loop fire deterministically."""

    def __init__(self, step):
        self.t = 0.0
        self.step = step
        self.n = 0

    def perf_counter(self):
        self.n += 1
        if self.n % 2 == 0:
            self.t += self.step
        return self.t

    def __getattr__(self, name):
        return getattr(_time, name)


def _assignments_agree(sol):
    """Both views of one solution object tell the same assignment: a task lists a resource iff that resource
    lists an assignment for the task, and lists it once."""
    for name, ts in sol.tasks.items():
        listed = list(ts.assigned_resources)
        if len(set(listed)) != len(listed):
            return False
        from_resources = {rn for rn, rs in sol.resources.items() if any(a[0] == name for a in rs.assignments)}
        if set(listed) != from_resources:
            return False
    return True


def run(p, index, calls, solver_kw=None, tracked=(), clock_step=None, want_solutions=True, later_problem=False):
    """calls: list of ("solve",) | ("another",) | ("another_var", i) | ("initialize",) | ("export",)
    index: {(schedule key, objective tuple): point id} from scenarios.from_problem.
    Returns dict(events=[...], solutions=[...], stdout=str)."""
    import processscheduler.solver as pss
    solver_kw = dict(solver_kw or {})
    b = B.build(p)
    for i, ind in enumerate(p["inds"]):
        if b.inds[i] is not None:
            ind["solname"] = b.inds[i].name
    s = B.make_solver(b, **solver_kw)
    events, solutions, kept = [], [], []
    obj_targets = [o._target for o in b.objs]

    def point_of(m):
        v = PJ.from_model(b, p, m)
        key = tlc.key_of(v)
        ovals = tuple(m.eval(t, model_completion=True).as_long() for t in obj_targets) if obj_targets else (0,)
        return index.get((key, ovals), -1)

    z3proxy.install(s, events, point_of)
    track_vars = []
    for kind, ti in tracked:
        t = b.tasks[ti - 1]
        track_vars.append(t._start if kind == "start" else t._end)
    old_time = pss.time
    # z3's verbose mode (debug=True) writes to the C-level stderr: silence it for the duration
    import os
    saved_err = os.dup(2)
    devnull = os.open(os.devnull, os.O_WRONLY)
    os.dup2(devnull, 2)
    if clock_step is not None:
        pss.time = ScriptedClock(clock_step)
    out_text = []
    try:
        for c in calls:
            if c[0] in ("another", "another_var") and s._model is None:
                continue  # not enabled in the specification (the call raises by design): not part of a behaviour
            ev = {"e": "call", "name": c[0], "x": c[1] if len(c) > 1 else 0}
            events.append(ev)
            raised, res = False, None
            with B.silence() as buf, warnings.catch_warnings():
                warnings.simplefilter("ignore")
                try:
                    if c[0] == "solve":
                        res = s.solve()
                    elif c[0] == "another":
                        res = s.find_another_solution()
                    elif c[0] == "another_var":
                        res = s.find_another_solution_for_variable(track_vars[c[1] - 1])
                    elif c[0] == "initialize":
                        s.initialize()
                    elif c[0] == "export":
                        import tempfile, os
                        fd, path = tempfile.mkstemp(suffix=".smt2")
                        os.close(fd)
                        try:
                            s.export_to_smt2(path)
                        finally:
                            os.unlink(path)
                except Exception as ex:  # an exception escaping a public call
                    raised = True
                    ev["exc"] = f"{type(ex).__name__}: {ex}"[:300]
            out_text.append(buf.getvalue())
            if c[0] in ("initialize", "export"):
                if raised:
                    events.append({"e": "ret", "w": -1, "raised": True})
                continue
            w = 0
            if not raised and res:
                # the returned object must report the current model
                w = point_of(s._model) if s._model is not None else -1
                sv = PJ.from_solution(p, res)
                mv = PJ.from_model(b, p, s._model)
                same = all((not mv["sched"][i] and not sv["sched"][i])
                           or (mv["sched"][i] == sv["sched"][i] and mv["s"][i] == sv["s"][i] and mv["e"][i] == sv["e"][i])
                           for i in range(len(mv["sched"])))
                if not same or not _assignments_agree(res):
                    w = -2
                kept.append((len(events), res, res.to_json(compact=True)))
                if want_solutions:
                    solutions.append({"call": len(events), "sv": sv, "trace": PJ.to_trace(p, 0, sv, res),
                                      "json": json.loads(res.to_json(compact=True))})
            events.append({"e": "ret", "w": w if not raised else -1, "raised": raised})
            if later_problem:
                # another, unrelated problem (same task names) is created between two calls: a solver keeps working
                # on the problem it was given
                later_problem = False
                import processscheduler as _ps
                _ps.SchedulingProblem(name="LaterProblem", horizon=p["H"] + 3)
                for tk in p["tasks"][:1]:
                    _ps.FixedDurationTask(name=tk["name"], duration=1)
        # a solution that has been handed out is a value: later calls on the solver must not change it
        for idx, obj, snapshot in kept:
            if obj.to_json(compact=True) != snapshot and idx < len(events) and events[idx]["e"] == "ret":
                events[idx]["w"] = -2
                events[idx]["changed_by_a_later_call"] = True
    finally:
        pss.time = old_time
        os.dup2(saved_err, 2)
        os.close(saved_err)
        os.close(devnull)
        z3.set_option("verbose", 0)
    return {"events": events, "solutions": solutions, "stdout": "\n".join(out_text)}
