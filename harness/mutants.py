"""Development-time calibration against seeded changes (never part of a manifest command).

  mutants.py confirm <dir> ...   for every <dir>/mutant_*.diff + demo_*.py: in a scratch worktree of /repo HEAD
                                 (outside /repo and /verif, removed afterwards) check that the patch applies, that the
                                 demo exits 0 without it and 1 with it, and that the repository's tests pass with it
  mutants.py detect <seeded dir> [props...]   apply each kept patch to /repo, run the quick checks, undo the patch
"""
from __future__ import annotations

import concurrent.futures as cf
import glob
import json
import os
import re
import shutil
import subprocess
import sys
import time

ROOT = os.path.dirname(os.path.dirname(os.path.abspath(__file__)))
DESELECT = ["--deselect", "test/test_plot.py::test_gantt_plotly_base",
            "--deselect", "test/test_plot.py::test_gantt_plotly_with_indicators_figsize",
            "--deselect", "test/test_plot.py::test_gantt_plotly_raise_wrong_type",
            "--deselect", "test/test_plot.py::test_gantt_with_buffers"]


def sh(cmd, cwd=None, timeout=3600, env=None):
    r = subprocess.run(cmd, cwd=cwd, capture_output=True, text=True, timeout=timeout, env=env)
    return r.returncode, r.stdout + r.stderr


def confirm_one(diff, demo, ident):
    wt = f"/tmp/mw/{ident}"
    shutil.rmtree(wt, ignore_errors=True)
    os.makedirs("/tmp/mw", exist_ok=True)
    out = {"id": ident, "diff": diff, "demo": demo}
    try:
        rc, o = sh(["git", "-C", "/repo", "worktree", "add", "-q", "--detach", wt, "HEAD"])
        if rc:
            out["error"] = o
            return out
        shutil.copy(demo, os.path.join(wt, "demo.py"))
        env = dict(os.environ, PYTHONPATH=wt, PYTHONHASHSEED="0")
        rc0, o0 = sh(["/venv/bin/python", "demo.py"], cwd=wt, env=env, timeout=900)
        out["demo_without"] = rc0
        rc, o = sh(["git", "apply", diff], cwd=wt)
        out["applies"] = rc == 0
        if rc:
            out["error"] = o
            return out
        rc1, o1 = sh(["/venv/bin/python", "demo.py"], cwd=wt, env=env, timeout=900)
        out["demo_with"] = rc1
        out["demo_output"] = o1[-600:]
        rc, o = sh(["/venv/bin/python", "-m", "pytest", "-q", "-p", "no:cacheprovider", "-q", "--timeout=900"] + DESELECT,
                   cwd=wt, env=env, timeout=3000)
        out["tests_rc"] = rc
        out["tests_tail"] = o.strip().splitlines()[-3:]
        out["confirmed"] = (rc0 == 0 and rc1 == 1 and rc == 0)
    finally:
        sh(["git", "-C", "/repo", "worktree", "remove", "--force", wt])
        shutil.rmtree(wt, ignore_errors=True)
    return out


def confirm(dirs):
    jobs = []
    for d in dirs:
        for diff in sorted(glob.glob(os.path.join(d, "mutant_*.diff"))):
            n = re.search(r"mutant_(\d+)", diff).group(1)
            demo = os.path.join(d, f"demo_{n}.py")
            jobs.append((diff, demo, f"{os.path.basename(d.rstrip('/'))}_{n}"))
    res = []
    with cf.ThreadPoolExecutor(max_workers=6) as ex:
        for r in ex.map(lambda j: confirm_one(*j), jobs):
            print(json.dumps({k: r.get(k) for k in ("id", "applies", "demo_without", "demo_with", "tests_rc", "confirmed", "error", "tests_tail")}))
            sys.stdout.flush()
            res.append(r)
    return res


def detect(seeded_dir, props=None, tier="quick"):
    results = {}
    for d in sorted(glob.glob(os.path.join(seeded_dir, "*"))):
        meta_p = os.path.join(d, "meta.json")
        if not os.path.isdir(d) or not os.path.exists(meta_p):
            continue
        meta = json.load(open(meta_p))
        targets = props or meta.get("run_checks") or [meta["property"]]
        rc, o = sh(["git", "-C", "/repo", "status", "--porcelain", "--untracked-files=no"])
        if o.strip():
            raise SystemExit("/repo has uncommitted changes: refusing to apply a seeded patch")
        rc, o = sh(["git", "-C", "/repo", "apply", os.path.join(d, "patch.diff")])
        if rc:
            results[os.path.basename(d)] = {"error": "patch does not apply: " + o[:200]}
            print(os.path.basename(d), "PATCH DOES NOT APPLY")
            continue
        try:
            row = {}
            for pid in targets:
                t0 = time.time()
                rc, o = sh(["/venv/bin/python", os.path.join(ROOT, "harness", "check.py"), pid, "--tier", tier],
                           cwd=ROOT, env=dict(os.environ, PYTHONHASHSEED="0"), timeout=7200)
                viol = [l for l in o.splitlines() if l.startswith("VIOLATION")]
                row[pid] = {"exit": rc, "violations": len(viol), "first": viol[0][:300] if viol else "",
                            "wall": round(time.time() - t0, 1)}
                print(os.path.basename(d), pid, "exit", rc, "violations", len(viol), (viol[0][:200] if viol else ""))
                sys.stdout.flush()
            results[os.path.basename(d)] = row
        finally:
            sh(["git", "-C", "/repo", "checkout", "--", "."])
    return results


if __name__ == "__main__":
    if sys.argv[1] == "confirm":
        confirm(sys.argv[2:])
    elif sys.argv[1] == "detect":
        tier = os.environ.get("MUT_TIER", "quick")
        r = detect(sys.argv[2], sys.argv[3:] or None, tier)
        json.dump(r, open(os.path.join(sys.argv[2], f"detection_{tier}.json"), "w"), indent=1)
