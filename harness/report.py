"""Extraction of what the library reports, exports and draws, as neutral records for
spec/ReportTrace.tla.  Independent parsers only (json, csv, zipfile + XML, matplotlib artists)."""
from __future__ import annotations

import ast
import csv
import datetime
import io
import json
import os
import re
import tempfile
import zipfile
import xml.etree.ElementTree as ET


def _secs(x, p_start):
    """Calendar value -> integer seconds relative to the problem's start_time (or absolute for durations)."""
    if x is None:
        return []
    if isinstance(x, datetime.timedelta):
        return [int(x.total_seconds())]
    if isinstance(x, datetime.datetime):
        base = p_start if p_start is not None else datetime.datetime(1970, 1, 1)
        return [int((x - base).total_seconds())]
    raise TypeError(type(x))


def _iso_duration(s):
    m = re.fullmatch(r"(-)?P(?:(\d+)D)?(?:T(?:(\d+)H)?(?:(\d+)M)?(?:(\d+(?:\.\d+)?)S)?)?", s)
    if not m:
        raise ValueError(s)
    sign = -1 if m.group(1) else 1
    d, h, mi, se = (float(g) if g else 0.0 for g in m.groups()[1:])
    return int(sign * (d * 86400 + h * 3600 + mi * 60 + se))


def _parse_time(s, p_start):
    if s is None:
        return []
    if isinstance(s, (int, float)):
        return [int(s)]
    try:
        dt = datetime.datetime.fromisoformat(s)
        return _secs(dt, p_start)
    except ValueError:
        return [_iso_duration(s)]


def sol_record(p, sol):
    pst = sol.problem.start_time
    tasks = []
    for name, ts in sol.tasks.items():
        tasks.append({"name": name, "start": ts.start, "end": ts.end, "duration": ts.duration,
                      "scheduled": bool(ts.scheduled), "assigned": list(ts.assigned_resources),
                      "st": _secs(ts.start_time, pst), "et": _secs(ts.end_time, pst), "dt": _secs(ts.duration_time, pst)})
    resources = [{"name": n, "assignments": [[a[0], a[1], a[2]] for a in r.assignments]} for n, r in sol.resources.items()]
    buffers = [{"name": n, "times": list(bf.level_change_times), "levels": list(bf.level)} for n, bf in sol.buffers.items()]
    indicators = [{"name": n, "value": v} for n, v in sol.indicators.items()]
    return {"horizon": sol.horizon, "tasks": tasks, "resources": resources, "buffers": buffers, "indicators": indicators}


def _rows_from_table(rows):
    out = []
    for r in rows:
        out.append({"name": r["Task name"], "start": int(r["Start"]), "end": int(r["End"]), "duration": int(r["Duration"]),
                    "scheduled": (r["Scheduled"] in (True, "True")),
                    "assigned": list(ast.literal_eval(r["Allocated Resources"])) if isinstance(r["Allocated Resources"], str)
                    else list(r["Allocated Resources"])})
    return out


def _col(ref):
    m = re.match(r"([A-Z]+)(\d+)", ref)
    c = 0
    for ch in m.group(1):
        c = c * 26 + (ord(ch) - 64)
    return c - 1, int(m.group(2)) - 1


def parse_xlsx(path):
    ns = {"m": "http://schemas.openxmlformats.org/spreadsheetml/2006/main"}
    z = zipfile.ZipFile(path)
    strings = []
    if "xl/sharedStrings.xml" in z.namelist():
        root = ET.fromstring(z.read("xl/sharedStrings.xml"))
        for si in root.findall("m:si", ns):
            strings.append("".join(t.text or "" for t in si.iter("{%s}t" % ns["m"])))
    wb = ET.fromstring(z.read("xl/workbook.xml"))
    names = [s.get("name") for s in wb.find("m:sheets", ns)]
    sheets = {}
    for i, nm in enumerate(names):
        root = ET.fromstring(z.read(f"xl/worksheets/sheet{i + 1}.xml"))
        cells = {}
        merges, covered = {}, set()
        mc = root.find("m:mergeCells", ns)
        if mc is not None:
            for m in mc:
                a, b = m.get("ref").split(":")
                (c0, r0), (c1, r1) = _col(a), _col(b)
                merges[(r0, c0)] = c1
                for cc in range(c0 + 1, c1 + 1):
                    covered.add((r0, cc))
        for c in root.iter("{%s}c" % ns["m"]):
            v = c.find("m:v", ns)
            col, row = _col(c.get("r"))
            if v is None:
                # a formatted blank cell: an item with an empty text, unless it is the filler of a merged range
                if c.get("s") is not None and (row, col) not in covered and row > 0 and col > 0:
                    cells[(row, col)] = ""
                continue
            val = strings[int(v.text)] if c.get("t") == "s" else (int(float(v.text)) if float(v.text).is_integer() else float(v.text))
            cells[(row, col)] = val
        sheets[nm] = (cells, merges)
    return sheets


def _sheet_items(cells, merges):
    names, items = [], []
    rows = sorted({r for (r, c) in cells if c == 0 and r > 0})
    def text(v):
        # names and labels are texts; a cell that holds a number instead is reported as such (and differs from any name)
        return v if isinstance(v, str) else f"<number {v!r}>"
    for r in rows:
        names.append(text(cells[(r, 0)]))
    for (r, c), v in sorted(cells.items()):
        if r == 0 or c == 0:
            continue
        items.append([r, c, merges.get((r, c), c), text(v)])
    return names, items


def export_record(p, sol):
    pst = sol.problem.start_time
    d = tempfile.mkdtemp(prefix="exp_")
    try:
        ex = {}
        # JSON
        import warnings
        with warnings.catch_warnings():
            warnings.simplefilter("ignore")
            j = json.loads(sol.to_json())
        jt = []
        times = []
        for name, t in j["tasks"].items():
            jt.append({"name": t["name"], "start": t["start"], "end": t["end"], "duration": t["duration"],
                       "scheduled": t["scheduled"], "assigned": list(t["assigned_resources"])})
            times.append([_parse_time(t.get("start_time"), pst), _parse_time(t.get("end_time"), pst),
                          _parse_time(t.get("duration_time"), pst)])
        ex["json"] = {"tasks": jt, "times": times,
                      "resources": [{"name": r["name"], "assignments": [list(a) for a in r["assignments"]]} for r in j["resources"].values()],
                      "buffers": [{"name": b["name"], "times": b["level_change_times"], "levels": b["level"]} for b in j["buffers"].values()],
                      "indicators": [{"name": k, "value": v} for k, v in j["indicators"].items()],
                      "horizon": j["horizon"]}
        with warnings.catch_warnings():
            warnings.simplefilter("ignore")
            jc = json.loads(sol.to_json(compact=True))

        def _diff(a, b, path=""):
            if isinstance(a, dict) and isinstance(b, dict):
                out = []
                for k in sorted(set(a) | set(b)):
                    if k not in a or k not in b:
                        out.append(f"{path}/{k}:missing")
                    else:
                        out += _diff(a[k], b[k], f"{path}/{k}")
                return out
            return [] if a == b else [f"{path}:differs"]
        ex["json_compact_diff"] = _diff(j, jc)[:20]
        # CSV (through a file) and DataFrame
        path = os.path.join(d, "s.csv")
        sol.to_csv(path)
        with open(path, newline="") as f:
            ex["csv"] = _rows_from_table(list(csv.DictReader(f)))
        df = sol.to_df()
        ex["df"] = _rows_from_table(df.to_dict(orient="records"))
        # an export is a value: whatever the caller does to the returned frame, the next export shows the solution again
        try:
            for col in list(df.columns):
                if str(df[col].dtype).startswith(("int", "float")):
                    df[col] += 100
            df.drop(columns=[df.columns[-1]], inplace=True)
            df.sort_values(by=df.columns[0], ascending=False, inplace=True)
        except Exception:
            pass
        again = _rows_from_table(sol.to_df().to_dict(orient="records"))
        path2 = os.path.join(d, "s2.csv")
        sol.to_csv(path2)
        with open(path2, newline="") as f:
            csv_again = _rows_from_table(list(csv.DictReader(f)))
        ex["export_again_diff"] = [k for k, a, b_ in (("df", ex["df"], again), ("csv", ex["csv"], csv_again)) if a != b_]
        # Excel
        xp = os.path.join(d, "s.xlsx")
        sol.to_excel_file(xp)
        sheets = parse_xlsx(xp)
        rn, ri = _sheet_items(*sheets["GANTT Resource view"])
        tn, ti = _sheet_items(*sheets["GANTT Task view"])
        icells, _ = sheets["Indicators"]
        inds = []
        for r in sorted({r for (r, c) in icells if r > 0}):
            inds.append([icells.get((r, 0)), icells.get((r, 1))])
        ex["xlsx"] = {"resource_names": rn, "resource_items": ri, "task_names": tn, "task_items": ti, "indicators": inds}
        # the coloured variant holds the same items (only the cell backgrounds differ)
        xc = os.path.join(d, "c.xlsx")
        sol.to_excel_file(xc, colors=True)
        csheets = parse_xlsx(xc)
        crn, cri = _sheet_items(*csheets["GANTT Resource view"])
        ctn, cti = _sheet_items(*csheets["GANTT Task view"])
        ex["xlsx_colors_diff"] = [k for k, a, b_ in (("resource_names", rn, crn), ("resource_items", ri, cri),
                                                       ("task_names", tn, ctn), ("task_items", ti, cti)) if a != b_]
        return ex
    finally:
        import shutil
        shutil.rmtree(d, ignore_errors=True)


def _bars(ax):
    from matplotlib.collections import PolyCollection
    bars = []
    for coll in ax.collections:
        if not isinstance(coll, PolyCollection):
            continue
        for path in coll.get_paths():
            v = path.vertices
            x0, x1 = float(v[:, 0].min()), float(v[:, 0].max())
            y0 = float(v[:, 1].min())
            bars.append([int(round(y0 / 2)), int(round(x0 * 100)), int(round(x1 * 100))])
    return bars


def gantt_record(p, sol):
    import warnings
    with warnings.catch_warnings():
        warnings.simplefilter("ignore")     # (matplotlib warns about an empty chart: a solution with nothing scheduled)
        return _gantt_record(p, sol)


def _gantt_record(p, sol):
    import matplotlib
    matplotlib.use("Agg")
    import matplotlib.pyplot as plt
    import numpy as np
    import processscheduler as ps
    g = {}
    for mode, key in (("Resource", "res"), ("Task", "task")):
        plt.close("all")
        ps.render_gantt_matplotlib(sol, show_plot=False, render_mode=mode)
        fig = plt.gcf()
        ax = fig.axes[0]
        g[key] = {"ylabels": [t.get_text() for t in ax.get_yticklabels()], "bars": _bars(ax),
                  "texts": [t.get_text() for t in ax.texts],
                  # lines with data on the Gantt axes (the indicator legend uses empty lines): there must be none
                  "extra_lines": sum(1 for ln in ax.lines if len(ln.get_xdata()) > 0)}
        if key == "res":
            bufs = []
            if sol.buffers and len(fig.axes) > 1:
                for line in fig.axes[1].lines:
                    xs, ys = list(line.get_xdata()), list(line.get_ydata())
                    segs = []
                    for i in range(0, len(xs) - 1, 3):
                        segs.append([int(xs[i]), int(xs[i + 1]), int(ys[i])])
                    bufs.append(segs)
            g["buffers"] = bufs
        # a chart is a function of the solution: drawing it again while the first figure is still open gives the same
        # chart (same rows, bars, texts; same number of axes in the figure)
        first_axes = len(fig.axes)
        ps.render_gantt_matplotlib(sol, show_plot=False, render_mode=mode)
        fig2 = plt.gcf()
        ax2 = fig2.axes[0]
        again = {"ylabels": [t.get_text() for t in ax2.get_yticklabels()], "bars": _bars(ax2), "texts": [t.get_text() for t in ax2.texts]}
        diff = [k for k in again if again[k] != g[key][k]]
        if len(fig2.axes) != first_axes:
            diff.append(f"axes:{first_axes}->{len(fig2.axes)}")
        g[key]["redraw_diff"] = diff
        plt.close("all")
    return g
