"""Running TLC: enumeration of V(P) with MC_Timeline, trace validation with TimelineTrace."""
from __future__ import annotations

import json
import os
import re
import shutil
import subprocess
import tempfile
import time

SPEC_DIR = os.path.join(os.path.dirname(os.path.dirname(os.path.abspath(__file__))), "spec")
JAR = "/opt/veriftools/tla/tla2tools.jar"
CM = "/opt/veriftools/tla/CommunityModules-deps.jar"


class TLCError(Exception):
    """TLC itself failed (parse error, crash, timeout): machinery failure, never a verdict."""


class TLCViolation(Exception):
    """TLC found an invariant / property violation on the specification."""

    def __init__(self, name, output):
        super().__init__(name)
        self.name = name
        self.output = output


def _classpath():
    cp = [JAR]
    d = os.path.dirname(JAR)
    for f in sorted(os.listdir(d)):
        if f.endswith(".jar") and f != os.path.basename(JAR):
            cp.append(os.path.join(d, f))
    return ":".join(cp)


_STATS = re.compile(r"(\d+) states generated, (\d+) distinct states found")
_SIMSTATS = re.compile(r"The number of states generated: (\d+)")


def run_tlc(module, cfg, env, workers=16, timeout=3600, simulate=None, extra=None, heap="6g"):
    """Runs TLC on spec/<module>.tla with spec/<cfg>; returns (lines, stats)."""
    work = tempfile.mkdtemp(prefix="tlc_")
    try:
        cmd = ["java", f"-Xmx{heap}", "-XX:+UseParallelGC", "-cp", _classpath(), "tlc2.TLC",
               "-workers", str(workers), "-metadir", os.path.join(work, "meta"),
               "-noGenerateSpecTE", "-config", os.path.join(SPEC_DIR, cfg)]
        if simulate:
            cmd += ["-simulate", simulate]
        if extra:
            cmd += list(extra)
        cmd.append(os.path.join(SPEC_DIR, module + ".tla"))
        e = dict(os.environ)
        e.update(env)
        t0 = time.time()
        try:
            r = subprocess.run(cmd, cwd=work, env=e, capture_output=True, text=True, timeout=timeout)
        except subprocess.TimeoutExpired as ex:
            raise TLCError(f"TLC timed out after {timeout}s on {module}") from ex
        out = r.stdout
        stats = {"wall_s": round(time.time() - t0, 2), "generated": 0, "distinct": 0}
        m = None
        for m in _STATS.finditer(out):
            pass
        if m:
            stats["generated"] = int(m.group(1))
            stats["distinct"] = int(m.group(2))
        elif simulate:
            ms = _SIMSTATS.search(out)
            if ms:
                stats["generated"] = stats["distinct"] = int(ms.group(1))
        if "is violated" in out or "Temporal properties were violated" in out:
            mm = re.search(r"Invariant (\S+) is violated", out)
            raise TLCViolation(mm.group(1) if mm else "temporal property", out)
        if r.returncode != 0 or "Model checking completed" not in out and not simulate:
            raise TLCError(f"TLC failed on {module} (exit {r.returncode}):\n" + out[-4000:] + r.stderr[-2000:])
        return out.splitlines(), stats
    finally:
        shutil.rmtree(work, ignore_errors=True)


_COV = re.compile(r"^<(\w+) line \d+, col \d+ to line \d+, col \d+ of module (\w+)>: (\d+):(\d+)")


def action_coverage(module, cfg, env, workers=16, timeout=3600):
    """TLC -coverage 1: {action name: distinct states it produced}.  An action that is never taken means that
    whatever mentions it was checked vacuously on that input."""
    lines, stats = run_tlc(module, cfg, env, workers=workers, timeout=timeout, extra=["-coverage", "1"])
    out = {}
    for ln in lines:
        m = _COV.match(ln)
        if m:
            out[m.group(1)] = out.get(m.group(1), 0) + int(m.group(3))
    return out, stats


def timeline_action_coverage(problems, cfg="MC_Timeline.cfg"):
    d = tempfile.mkdtemp(prefix="cov_")
    try:
        pf = os.path.join(d, "problems.json")
        with open(pf, "w") as f:
            json.dump(problems, f)
        return action_coverage("MC_Timeline", cfg, {"PROBLEMS_FILE": pf})
    finally:
        shutil.rmtree(d, ignore_errors=True)


def _json_lines(lines):
    for ln in lines:
        if ln.startswith('"{'):
            try:
                yield json.loads(json.loads(ln))
            except Exception:
                continue


def key_of(v):
    """Canonical hashable key of an abstract schedule (V line or projection)."""
    return (tuple(v["sched"]),
            tuple((s, e) if sc else (-1, -1) for sc, s, e in zip(v["sched"], v["s"], v["e"])),
            tuple((bs, be) if u else (-1, -1) for u, bs, be in zip(v["used"], v["bs"], v["be"])),
            tuple(v["ap"]), tuple(v.get("lv0") or ()))


def enumerate_V(problems, declarative=False, workers=16, timeout=3600, cfg=None):
    """V(P) for every problem: {pid: {key: record}} plus TLC statistics."""
    d = tempfile.mkdtemp(prefix="fam_")
    try:
        pf = os.path.join(d, "problems.json")
        with open(pf, "w") as f:
            json.dump(problems, f)
        cfg = cfg or ("MC_Timeline_decl.cfg" if declarative else "MC_Timeline.cfg")
        lines, stats = run_tlc("MC_Timeline", cfg, {"PROBLEMS_FILE": pf}, workers=workers, timeout=timeout)
        V = {p["id"]: {} for p in problems}
        for rec in _json_lines(lines):
            if "pid" in rec and "sched" in rec:
                pid = problems[rec["pid"] - 1]["id"]
                V[pid][key_of(rec)] = rec
        # TLC's workers print in a nondeterministic order: make everything downstream reproducible
        V = {pid: dict(sorted(vs.items(), key=lambda kv: repr(kv[0]))) for pid, vs in V.items()}
        return V, stats
    finally:
        shutil.rmtree(d, ignore_errors=True)


def validate_traces(problems, traces, workers=1, timeout=3600):
    """Returns per trace index (0-based) a verdict dict {accept: bool, why: [...], consumed: int}."""
    if not traces:
        return [], {"generated": 0, "distinct": 0, "wall_s": 0}
    d = tempfile.mkdtemp(prefix="trc_")
    try:
        pf = os.path.join(d, "problems.json")
        tf = os.path.join(d, "traces.json")
        with open(pf, "w") as f:
            json.dump(problems, f)
        with open(tf, "w") as f:
            json.dump(traces, f)
        lines, stats = run_tlc("TimelineTrace", "TimelineTrace.cfg",
                               {"PROBLEMS_FILE": pf, "TRACE_FILE": tf}, workers=workers, timeout=timeout,
                               extra=["-coverage", "1"])
        # which trace actions consumed the implementation's events (vacuity: an action never taken was never bound)
        acts = {}
        for ln in lines:
            m = _COV.match(ln)
            if m and m.group(2) == "TimelineTrace":
                acts[m.group(1)] = acts.get(m.group(1), 0) + int(m.group(3))
        stats["trace_actions_taken"] = acts
        res = [None] * len(traces)
        for rec in _json_lines(lines):
            if "tid" not in rec:
                continue
            i = rec["tid"] - 1
            cur = res[i]
            if rec["verdict"] == "accept":
                res[i] = {"accept": True, "why": [], "consumed": rec["consumed"]}
            elif cur is None or (not cur["accept"] and rec["consumed"] > cur["consumed"]):
                res[i] = {"accept": False, "why": sorted(rec["why"]), "consumed": rec["consumed"]}
        for i, r in enumerate(res):
            if r is None:
                raise TLCError(f"no verdict for trace {i + 1}")
        return res, stats
    finally:
        shutil.rmtree(d, ignore_errors=True)


def validate_solver_traces(scenarios, traces, timeout=3600):
    """Per trace: {accept: bool, why: [...], violates: [...], l: int} (SolverTrace.tla)."""
    if not traces:
        return [], {"generated": 0, "distinct": 0, "wall_s": 0}
    d = tempfile.mkdtemp(prefix="strc_")
    try:
        sf = os.path.join(d, "scenarios.json")
        tf = os.path.join(d, "traces.json")
        with open(sf, "w") as f:
            json.dump(scenarios, f)
        with open(tf, "w") as f:
            json.dump(traces, f)
        lines, stats = run_tlc("SolverTrace", "SolverTrace.cfg", {"SCENARIO_FILE": sf, "TRACE_FILE": tf},
                               workers=1, timeout=timeout)
        res = [{"accept": None, "why": [], "violates": [], "l": 0} for _ in traces]
        for rec in _json_lines(lines):
            if "tid" not in rec or "verdict" not in rec:
                continue
            r = res[rec["tid"] - 1]
            if rec["verdict"] == "violates":
                for w in rec["why"]:
                    if w not in r["violates"]:
                        r["violates"].append(w)
            elif rec["verdict"] == "accept":
                r["accept"] = True
                r["l"] = rec["l"]
            elif r["accept"] is None or (r["accept"] is False and rec["l"] > r["l"]):
                r["accept"] = False
                r["why"] = sorted(rec["why"])
                r["l"] = rec["l"]
        for i, r in enumerate(res):
            if r["accept"] is None:
                raise TLCError(f"no verdict for solver trace {i + 1}")
        return res, stats
    finally:
        shutil.rmtree(d, ignore_errors=True)


_ACTION = re.compile(r"^\\\* <(\w+) ")


def simulate_calls(scenario, num=20, depth=40, seed=1, maxcalls=6, timeout=300):
    """Spec -> code: behaviours of Solver generated by TLC in simulation mode, reduced to their
    sequences of public calls.  Returns a list of call sequences [("solve",), ("another",), ...]."""
    d = tempfile.mkdtemp(prefix="sim_")
    try:
        sf = os.path.join(d, "scenario.json")
        with open(sf, "w") as f:
            json.dump([dict(scenario, id=1)], f)
        cfg = os.path.join(d, "sim.cfg")
        with open(cfg, "w") as f:
            f.write(f"SPECIFICATION Spec\nCONSTANTS\n  PopOnExit = TRUE\n  MaxCalls = {maxcalls}\nCHECK_DEADLOCK FALSE\n")
        cmd = ["java", "-Xmx2g", "-XX:+UseParallelGC", "-cp", _classpath(), "tlc2.TLC", "-workers", "1",
               "-metadir", os.path.join(d, "meta"), "-noGenerateSpecTE", "-config", cfg,
               "-simulate", f"file={os.path.join(d, 'tr')},num={num}", "-depth", str(depth), "-seed", str(seed),
               os.path.join(SPEC_DIR, "MC_Solver.tla")]
        e = dict(os.environ)
        e["SCENARIO_FILE"] = sf
        try:
            subprocess.run(cmd, cwd=d, env=e, capture_output=True, text=True, timeout=timeout)
        except subprocess.TimeoutExpired:
            pass
        seqs = []
        for fn in sorted(os.listdir(d)):
            if not fn.startswith("tr"):
                continue
            calls, nvar = [], 0
            for ln in open(os.path.join(d, fn)):
                m = _ACTION.match(ln)
                if not m:
                    continue
                a = m.group(1)
                if a == "CallSolve":
                    calls.append(("solve",))
                elif a == "CallFindAnother":
                    calls.append(("another",))
                elif a == "CallFindAnotherVar":
                    nvar += 1
                    calls.append(("another_var", 1 + (nvar - 1) % max(1, scenario.get("nvars", 1))))
                elif a == "CallInitialize":
                    calls.append(("initialize",))
                elif a == "CallExport":
                    calls.append(("export",))
            if calls and calls not in seqs:
                seqs.append(calls)
        return seqs
    finally:
        shutil.rmtree(d, ignore_errors=True)


def validate_reports(problems, records, timeout=3600, workers=8):
    """Per record: list of failing clause names (spec/ReportTrace.tla)."""
    if not records:
        return [], {"generated": 0, "distinct": 0, "wall_s": 0}
    d = tempfile.mkdtemp(prefix="rep_")
    try:
        pf = os.path.join(d, "problems.json")
        rf = os.path.join(d, "records.json")
        with open(pf, "w") as f:
            json.dump(problems, f)
        with open(rf, "w") as f:
            json.dump(records, f)
        lines, stats = run_tlc("ReportTrace", "ReportTrace.cfg", {"PROBLEMS_FILE": pf, "REPORT_FILE": rf},
                               workers=workers, timeout=timeout)
        res = [None] * len(records)
        for rec in _json_lines(lines):
            if "rid" in rec:
                res[rec["rid"] - 1] = {"failing": sorted(rec["failing"]), "nclauses": rec["nclauses"]}
        for i, r in enumerate(res):
            if r is None:
                raise TLCError(f"no verdict for report record {i + 1}")
        return res, stats
    finally:
        shutil.rmtree(d, ignore_errors=True)


def builder_probes(timeout=600):
    """All (context, probe, verdict) transitions of spec/Builder.tla, and the context scripts."""
    lines, stats = run_tlc("Builder", "Builder_probe.cfg", {}, workers=8, timeout=timeout)
    contexts, probes, seen = None, [], set()
    for rec in _json_lines(lines):
        if "contexts" in rec:
            contexts = rec["contexts"]
        elif "verdict" in rec:
            k = json.dumps(rec, sort_keys=True)
            if k not in seen:
                seen.add(k)
                probes.append(rec)
    if contexts is None:
        raise TLCError("Builder did not print its contexts")
    probes.sort(key=lambda r: json.dumps(r, sort_keys=True))
    return contexts, probes, stats


def builder_orders(sizes, timeout=600):
    """All declaration orders for stage sizes [tasks, workers, constraints, indicators]."""
    d = tempfile.mkdtemp(prefix="ord_")
    try:
        f = os.path.join(d, "order.json")
        with open(f, "w") as fh:
            json.dump(list(sizes), fh)
        lines, stats = run_tlc("Builder", "Builder_order.cfg", {"ORDER_FILE": f}, workers=4, timeout=timeout)
        orders = []
        for rec in _json_lines(lines):
            if "order" in rec and rec["order"] not in orders:
                orders.append(rec["order"])
        orders.sort()
        return orders, stats
    finally:
        shutil.rmtree(d, ignore_errors=True)


def simulate_V(problems, num=2000, depth=80, seed=1, timeout=600, workers=8):
    """Random complete behaviours of Timeline (TLC simulation mode) for problems too large to enumerate:
    a SAMPLE of V(P) per problem (spec -> code at larger bounds)."""
    d = tempfile.mkdtemp(prefix="simfam_")
    try:
        pf = os.path.join(d, "problems.json")
        with open(pf, "w") as f:
            json.dump(problems, f)
        try:
            lines, stats = run_tlc("MC_Timeline", "MC_Timeline.cfg", {"PROBLEMS_FILE": pf}, workers=workers, timeout=timeout,
                                   simulate=f"num={num}", extra=["-depth", str(depth), "-seed", str(seed)])
        except TLCError as ex:
            raise
        V = {p["id"]: {} for p in problems}
        for rec in _json_lines(lines):
            if "pid" in rec and "sched" in rec:
                V[problems[rec["pid"] - 1]["id"]][key_of(rec)] = rec
        V = {pid: dict(sorted(vs.items(), key=lambda kv: repr(kv[0]))) for pid, vs in V.items()}
        return V, stats
    finally:
        shutil.rmtree(d, ignore_errors=True)
