"""A(P) versus V(P): the two z3 queries over the solver's own assertions.

  soundness     assertions AND projection not in V(P)   must be unsat
  completeness  assertions AND projection = v           must be sat, for every v in V_must(P)

The assertions are read from solver._solver.assertions() after SchedulingSolver.initialize(),
i.e. they are exactly what the library hands to z3 for the current working tree.
"""
from __future__ import annotations

import z3

import build as B
import project as PJ

Z3_TIMEOUT_MS = 20000


def build_kwargs(build_kw, solver_kw):
    """early_solver=True in a problem's build options stands for "create the solver first, with these solver kwargs"."""
    bk = dict(build_kw or {})
    if bk.get("early_solver") is True:
        bk["early_solver"] = dict(solver_kw)
    elif "early_solver" in bk and not bk["early_solver"]:
        del bk["early_solver"]
    return bk


def initialized_solver(p, build_kw=None, **solver_kw):
    b = B.build(p, **build_kwargs(build_kw, solver_kw))
    for i, ind in enumerate(p["inds"]):
        if b.inds[i] is not None:
            ind["solname"] = b.inds[i].name
    s = B.make_solver(b, **solver_kw)
    with B.silence():
        s.initialize()
    return b, s


def fresh_z3(solver, p, b, assertions=None):
    """A private z3 solver holding the library's assertions (the library's own solver object
    is left untouched).  `assertions`: use these instead (e.g. parsed from an SMT-LIB export)."""
    z = z3.Solver()
    z.set("timeout", Z3_TIMEOUT_MS)
    z.add(solver._solver.assertions() if assertions is None else assertions)
    if not p["user_horizon"]:
        # no user horizon: the comparison is made inside the bounded window 0..H
        z.add(b.problem._horizon <= p["H"])
    for i, bf in enumerate(b.buffers):
        if not p["buffers"][i]["initial"]:
            # free initial level: compared inside the window the specification enumerates
            z.add(bf._buffer_levels[0] >= p["buffers"][i]["init_lo"], bf._buffer_levels[0] <= p["buffers"][i]["init_hi"])
    return z


def domain_guard(b, p):
    """Nothing: negative times etc. are exactly what the soundness query must be able to find."""
    return z3.BoolVal(True)


def soundness(p, b, solver, V, max_witnesses=8, assertions=None):
    """Returns (witnesses, inconclusive).  A witness is an abstract schedule admitted by the
    implementation that is not a behaviour of Timeline."""
    z = fresh_z3(solver, p, b, assertions)
    if V:
        z.add(z3.Not(z3.Or([PJ.match(b, p, v) for v in V.values()])))
    out = []
    inconclusive = 0
    while len(out) < max_witnesses:
        r = z.check()
        if r == z3.unsat:
            break
        if r == z3.unknown:
            inconclusive += 1
            break
        m = z.model()
        v = PJ.from_model(b, p, m)
        v["raw"] = PJ.raw_model(b, p, m)
        out.append(v)
        z.add(z3.Not(PJ.match(b, p, v)))
    return out, inconclusive


def completeness(p, b, solver, V, assertions=None):
    """Returns (lost, inconclusive, checked): valid schedules the implementation does not admit."""
    z = fresh_z3(solver, p, b, assertions)
    lost, inconclusive, checked = [], 0, 0
    for k, v in V.items():
        if v.get("unspec"):
            continue
        checked += 1
        z.push()
        z.add(PJ.match(b, p, v))
        r = z.check()
        z.pop()
        if r == z3.unsat:
            lost.append(v)
        elif r == z3.unknown:
            inconclusive += 1
    return lost, inconclusive, checked


def indicator_identity(p, b, solver, V, max_per_problem=200):
    """For every v in V_must: pin(v) AND indicator outside its admissible range must be unsat."""
    bad, inconclusive, checked = [], 0, 0
    if not p["inds"]:
        return bad, inconclusive, checked
    z = fresh_z3(solver, p, b)
    for n, (k, v) in enumerate(V.items()):
        if v.get("unspec") or n >= max_per_problem:
            continue
        z.push()
        z.add(PJ.match(b, p, v))
        outs = []
        for i, ind in enumerate(p["inds"]):
            if b.inds[i] is None:
                continue
            if not p["user_horizon"] and ind["cls"] in ("IndicatorResourceUtilization", "FlowtimeSingleResource"):
                continue   # relative to the horizon the solution reports: judged on returned solutions (R_indicator)
            lo, hi = v["ind"][i]
            var = b.inds[i]._indicator_variable
            outs.append(z3.Or(var < lo, var > hi))
        z.add(z3.Or(outs))
        checked += 1
        r = z.check()
        if r == z3.sat:
            m = z.model()
            vals = [m.eval(b.inds[i]._indicator_variable, model_completion=True).as_long()
                    if b.inds[i] is not None else None for i in range(len(p["inds"]))]
            bad.append((v, vals))
        elif r == z3.unknown:
            inconclusive += 1
        z.pop()
    return bad, inconclusive, checked


def buffer_identity(p, b, solver, V, max_per_problem=200):
    """For every v in V_must: under pin(v) the buffer change times / levels the implementation
    holds are (i) uniquely determined and (ii) equal to the specification's history."""
    bad, inconclusive, checked = [], 0, 0
    if not p["buffers"]:
        return bad, inconclusive, checked
    z = fresh_z3(solver, p, b)
    for n, (k, v) in enumerate(V.items()):
        if v.get("unspec") or n >= max_per_problem:
            continue
        z.push()
        z.add(PJ.match(b, p, v))
        r = z.check()
        if r == z3.sat:
            checked += 1
            m = z.model()
            rep = [PJ.buffer_report(m, bf) for bf in b.buffers]
            want = [[list(x) for x in h] for h in v["hist"]]
            if rep != want:
                bad.append({"v": v, "reported": rep, "kind": "history"})
            else:
                allv = [x for bf in b.buffers for x in (bf._level_changes_time + bf._buffer_levels)]
                z.add(z3.Or([x != m.eval(x, model_completion=True) for x in allv]))
                r2 = z.check()
                if r2 == z3.sat:
                    m2 = z.model()
                    bad.append({"v": v, "reported": [PJ.buffer_report(m2, bf) for bf in b.buffers],
                                "kind": "not-determined"})
                elif r2 == z3.unknown:
                    inconclusive += 1
        elif r == z3.unknown:
            inconclusive += 1
        z.pop()
    return bad, inconclusive, checked


def pin_constraints(b, p, v):
    """Pins an abstract schedule through the PUBLIC API (documented task variables)."""
    import processscheduler as ps
    n = 0
    for i, t in enumerate(b.tasks):
        if p["tasks"][i]["optional"] and not isinstance(t._scheduled, bool):
            ps.ConstraintFromExpression(name=f"__pin_sched_{i}", expression=t._scheduled == bool(v["sched"][i]))
        if v["sched"][i]:
            ps.ConstraintFromExpression(name=f"__pin_s_{i}", expression=t._start == v["s"][i])
            ps.ConstraintFromExpression(name=f"__pin_e_{i}", expression=t._end == v["e"][i])
    for u in range(len(p["uses"])):
        bs, be = PJ.use_vars(b, p, u)
        if v["used"][u]:
            ps.ConstraintFromExpression(name=f"__pin_u_{u}", expression=z3.And(bs == v["bs"][u], be == v["be"][u]))
        else:
            ps.ConstraintFromExpression(name=f"__pin_u_{u}", expression=bs < 0)
    for c in range(len(b.cons)):
        if p["cons"][c]["optional"]:
            ps.ConstraintFromExpression(name=f"__pin_a_{c}", expression=PJ.applied_expr(b, c) == bool(v["ap"][c]))
    for i, bf in enumerate(b.buffers):
        if not p["buffers"][i]["initial"]:
            ps.ConstraintFromExpression(name=f"__pin_l_{i}", expression=bf._buffer_levels[0] == v["lv0"][i])


def solve_pinned(p, v, **solver_kw):
    """Builds the problem afresh, pins v with public constraints, calls solve()."""
    b = B.build(p)
    for i, ind in enumerate(p["inds"]):
        if b.inds[i] is not None:
            ind["solname"] = b.inds[i].name
    pin_constraints(b, p, v)
    s = B.make_solver(b, **solver_kw)
    with B.silence():
        sol = s.solve()
    return b, s, sol
