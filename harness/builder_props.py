"""Runners of C18 (validation at creation) and C14 (names, order, history)."""
from __future__ import annotations

import copy
import json
import multiprocessing as mp
import random
import traceback

import tlc
from families import tasks as FT

ASSUME18 = [
    "TLC 1.8 + CommunityModules, CPython, pydantic are trusted",
    "the rules are exactly those named in the statement of C18; parameter values the statement does not mention are not in the grids (unspecified)",
    "only exception-versus-object is compared, not the exception type or message",
    "'before a problem exists' is reproduced by resetting processscheduler.base.active_problem to None (as in a fresh interpreter)",
]


def _apply(ps, env, o):
    k = o["kind"]
    if k == "problem":
        env["__problem"] = ps.SchedulingProblem(name="P", horizon=10)
    elif k == "task":
        cls = getattr(ps, o["cls"])
        kw = dict(name=o["name"], work_amount=o.get("work_amount", 0), priority=o.get("priority", 1), optional=o.get("optional", False))
        if o["cls"] == "FixedDurationTask":
            kw["duration"] = o.get("duration", 1)
        if o["cls"] == "VariableDurationTask":
            kw["min_duration"] = o.get("min_duration", 0)
        env[o["name"]] = cls(**kw)
    elif k == "worker":
        env[o["name"]] = ps.Worker(name=o["name"])
    elif k == "cumulative":
        kw = {}
        if o.get("cost2"):
            c2 = o["cost2"]
            kw["cost"] = ps.ConstantFunction(value=c2 // 2 if c2 % 2 == 0 else c2 / 2)
        if o.get("productivity", 1) != 1:
            kw["productivity"] = o["productivity"]
        env[o["name"]] = ps.CumulativeWorker(name=o["name"], size=o["size"], **kw)
    elif k == "select":
        env[o["name"]] = ps.SelectWorkers(name=o["name"], list_of_workers=[env[w] for w in o["workers"]],
                                          nb_workers_to_select=o["n"])
    elif k == "require":
        env[o["task"]].add_required_resource(env[o["resource"]])
    elif k == "indicator":
        expr = env["T1"]._start if "T1" in env else 0
        env["ind:" + o["name"]] = ps.IndicatorFromMathExpression(name=o["name"], expression=expr)
    elif k == "buffer":
        env["buf:" + o["name"]] = ps.NonConcurrentBuffer(name=o["name"], initial_level=0)
    elif k == "objective":
        kw = {} if o["weight"] < 0 else {"weight": o["weight"]}
        getattr(ps, o["cls"])(target=env["ind:" + o["target"]], **kw)
    elif k == "constraint":
        cls = o["cls"]
        kw = dict(name=o["name"], optional=o.get("optional", False))
        if cls == "TaskStartAt":
            c = ps.TaskStartAt(task=env[o["task"]], value=0, **kw)
        elif cls == "Not":
            c = ps.Not(constraint=env["con:" + o["operand"]], **kw)
        elif cls == "OptionalTaskForceSchedule":
            c = ps.OptionalTaskForceSchedule(task=env[o["task"]], to_be_scheduled=True, **kw)
        elif cls == "OptionalTaskConditionSchedule":
            c = ps.OptionalTaskConditionSchedule(task=env[o["task"]], condition=env["T1"]._start > 0, **kw)
        elif cls == "OptionalTasksDependency":
            c = ps.OptionalTasksDependency(task_1=env[o["task1"]], task_2=env[o["task2"]], **kw)
        elif cls == "ForceScheduleNOptionalTasks":
            c = ps.ForceScheduleNOptionalTasks(list_of_optional_tasks=[env[t] for t in o["tasks"]], nb_tasks_to_schedule=1, **kw)
        elif cls == "ForceApplyNOptionalConstraints":
            c = ps.ForceApplyNOptionalConstraints(list_of_optional_constraints=[env["con:" + n] for n in o["cons"]],
                                                  nb_constraints_to_apply=1, **kw)
        elif cls == "WorkLoad":
            c = ps.WorkLoad(resource=env[o["resource"]], dict_time_intervals_and_bound={(0, 2): o.get("bound", 1)}, **kw)
        elif cls in ("ResourceUnavailable", "ResourceInterrupted"):
            c = getattr(ps, cls)(resource=env[o["resource"]], list_of_time_intervals=[(1, 2)], **kw)
        elif cls in ("ResourcePeriodicallyUnavailable", "ResourcePeriodicallyInterrupted"):
            c = getattr(ps, cls)(resource=env[o["resource"]], list_of_time_intervals=[(1, 2)], period=3, **kw)
        elif cls == "ResourceNonDelay":
            c = ps.ResourceNonDelay(resource=env[o["resource"]], **kw)
        elif cls == "ResourceTasksDistance":
            c = ps.ResourceTasksDistance(resource=env[o["resource"]], distance=1, **kw)
        else:
            raise ValueError(cls)
        env["con:" + o["name"]] = c
    else:
        raise ValueError(k)


_PROBES = None
_CONTEXTS = None


def _probe(i):
    import processscheduler as ps
    import processscheduler.base
    import build as B
    rec = _PROBES[i]
    processscheduler.base.active_problem = None
    env = {}
    out = {"i": i, "context_error": None, "raised": None, "exc": None}
    with B.silence():
        try:
            for o in _CONTEXTS[rec["ctx"]]:
                if o.get("bad"):
                    # an ill-formed creation inside the context: it has to be refused (what it leaves behind shows in the probe)
                    try:
                        _apply(ps, env, o)
                    except Exception:
                        continue
                    raise RuntimeError(f"ill-formed context operation accepted: {o}")
                _apply(ps, env, o)
        except Exception as ex:
            out["context_error"] = f"{type(ex).__name__}: {ex}"
            return out
        try:
            _apply(ps, env, rec["op"])
            out["raised"] = False
        except Exception as ex:
            out["raised"] = True
            out["exc"] = f"{type(ex).__name__}: {str(ex)[:200]}"
    return out


def run_C18(tier, seed, replay=None, procs=16):
    global _PROBES, _CONTEXTS
    contexts, probes, st = tlc.builder_probes()
    if replay:
        probes = [replay["detail"]["probe"]]
    _PROBES, _CONTEXTS = probes, contexts
    import processscheduler  # noqa: F401
    ctx = mp.get_context("fork")
    with ctx.Pool(procs) as pool:
        outs = pool.map(_probe, range(len(probes)), chunksize=16)
    viol = []
    n_unspec = 0
    for rec, o in zip(probes, outs):
        p = {"tag": f"{rec['ctx']}/{rec['op']['kind']}/{rec['op'].get('cls', '')}", "cons": [], "buffers": []}
        if o["context_error"]:
            viol.append({"kind": "validation", "summary": f"a well-formed context script was refused: {o['context_error']}",
                         "clauses": ["C18_well_formed_accepted"], "problem": p, "tag": p["tag"], "detail": {"probe": rec}})
            continue
        if rec["verdict"] == "unspecified":
            n_unspec += 1
            continue
        if rec["verdict"] == "reject" and not o["raised"]:
            viol.append({"kind": "validation", "summary": f"ill-formed element silently accepted: {json.dumps(rec['op'])} in context {rec['ctx']}",
                         "clauses": ["C18_ill_formed_rejected"], "problem": p, "tag": p["tag"], "detail": {"probe": rec}})
        elif rec["verdict"] == "accept" and o["raised"]:
            viol.append({"kind": "validation", "summary": f"well-formed element refused ({o['exc']}): {json.dumps(rec['op'])} in context {rec['ctx']}",
                         "clauses": ["C18_well_formed_accepted"], "problem": p, "tag": p["tag"], "detail": {"probe": rec, "exc": o["exc"]}})
    cov = {"states": st["distinct"], "transitions": st["generated"], "traces_validated_against_impl": len(probes),
           "samples": [{"probe": probes[i], "observed": outs[i]} for i in range(0, len(probes), max(1, len(probes) // 3))][:3],
           "exhaustive": True, "probes": len(probes), "unspecified_skipped": n_unspec,
           "by_verdict": {v: sum(1 for r in probes if r["verdict"] == v) for v in ("accept", "reject", "unspecified")},
           "tlc": st}
    return {"violations": viol, "coverage": cov, "assumptions": ASSUME18,
            "summary": f"{len(probes)} constructor transitions generated by TLC from Builder.tla and replayed"}


# ---------------------------------------------------------------------------------------------
ASSUME14 = [
    "TLC 1.8 + CommunityModules, z3, CPython, pydantic are trusted",
    "declaration orders are the behaviours of Builder.tla (Declare) enumerated by TLC; requirements (add_required_resource calls) keep their order",
    "each twin is compared with the valid set V that TLC enumerates from Timeline for the twin, and V is checked to be the image of the canonical problem's V under the renaming / permutation",
    "'earlier problems' are built and solved in the same worker process before the problem under test; 'fresh' runs use one process per problem",
]


def _c14_bases(full):
    from problems import PB, res_worker, start, end, sub
    bases = []
    # optional task + selection + strict sort on the shared worker (declaration-order sensitivity of the points in the past)
    b = PB(4, tag="c14-distance")
    a = b.task("A", "F", dur=1, optional=True)
    c = b.task("B", "F", dur=1)
    d = b.task("C", "F", dur=1)
    w1, w2 = b.worker("W1"), b.worker("W2")
    s = b.select("S", [w1, w2])
    b.require(a, worker=w1)
    b.require(c, select=s)
    b.require(d, worker=w1)
    b.con("ResourceTasksDistance", res=res_worker(w1), distance=1, mode="min", has_intervals=False, intervals=[])
    bases.append(b.done())
    # three tasks on three workers (name-derived z3 constants)
    b = PB(4, tag="c14-three-workers")
    ts = [b.task(n, "F", dur=d) for n, d in (("A", 1), ("B", 2), ("C", 1))]
    ws = [b.worker(n) for n in ("W1", "W2", "W3")]
    for t, w in zip(ts, ws):
        b.require(t, worker=w)
    b.require(ts[0], worker=ws[1])
    b.con("TaskPrecedence", before=ts[0], after=ts[2], offset=0, kind="lax")
    b.con("TasksDontOverlap", t1=ts[1], t2=ts[2])
    bases.append(b.done())
    # objective + indicators
    b = PB(4, tag="c14-objective")
    a = b.task("A", "F", dur=2, priority=2)
    c = b.task("B", "V", min=1, max=2, optional=True)
    w1, w2 = b.worker("W1", cost=1), b.worker("W2", cost=2)
    s = b.select("S", [w1, w2])
    b.require(a, select=s)
    b.require(c, worker=w1)
    b.con("TaskStartAfter", task=a, value=1, kind="lax")
    i = b.ind("IndicatorFromMathExpression", name="E", expr=sub(end(a), start(a)))
    j = b.ind("Flowtime", name="Flowtime", tasks=[a, c])
    b.obj("ObjectiveMinimizeFlowtime", ind=j)
    bases.append(b.done())
    # buffers + cumulative
    b = PB(4, tag="c14-buffer-cumulative")
    a = b.task("A", "F", dur=1)
    c = b.task("B", "F", dur=2)
    d = b.task("C", "Z", optional=True)
    cu = b.cumul("M", 2)
    w = b.worker("W")
    for t in (a, c):
        b.require(t, cumul=cu)
    b.require(d, worker=w)
    bf = b.buffer("Bf", initial=1, lower=0)
    b.unload(a, bf, 1)
    b.load(c, bf, 1)
    b.con("TaskEndBefore", task=c, value=4, kind="lax")
    b.obj("ObjectiveMinimizeMakespan")
    bases.append(b.done())
    # two tasks with work amounts on their own workers, makespan (the optimum must not depend on the order)
    b = PB(5, tag="c14-work-amounts")
    a = b.task("A", "V", min=0, max=5, work=4)
    c = b.task("B", "V", min=0, max=5, work=2)
    w1, w2 = b.worker("W1", prod=1), b.worker("W2", prod=1)
    b.require(a, worker=w1)
    b.require(c, worker=w2)
    b.obj("ObjectiveMinimizeMakespan")
    bases.append(b.done())
    # two variable tasks on an interrupted worker
    b = PB(6, tag="c14-interrupted")
    a = b.task("A", "V", min=2)
    c = b.task("B", "V", min=1)
    w = b.worker("W")
    b.require(a, worker=w)
    b.require(c, worker=w)
    b.con("ResourceInterrupted", res=res_worker(w), intervals=[[1, 2]])
    b.con("TaskStartAt", task=a, value=0)
    b.obj("ObjectiveMinimizeMakespan")
    bases.append(b.done())
    # distance between the tasks of a resource restricted to a time interval (tasks may run in any order)
    b = PB(6, tag="c14-distance-intervals")
    ts = [b.task(n, "F", dur=1) for n in ("A", "B", "C")]
    w = b.worker("W")
    for t in ts:
        b.require(t, worker=w)
    b.con("ResourceTasksDistance", res=res_worker(w), distance=1, mode="exact", has_intervals=True, intervals=[[2, 6]])
    b.con("TaskStartAt", task=ts[1], value=0)
    bases.append(b.done())
    # a variable-duration task declared first: the enumeration of all schedules must not depend on the order
    b = PB(3, tag="c14-enumeration")
    a = b.task("A", "V", min=1, max=2)
    c = b.task("B", "F", dur=1)
    bases.append(b.done())
    if full:
        # optional tasks on a non-delay worker, unordered group
        b = PB(4, tag="c14-nondelay")
        ts = [b.task(n, "F", dur=1, optional=(n != "B")) for n in ("A", "B", "C")]
        w = b.worker("W")
        for t in ts:
            b.require(t, worker=w)
        b.con("ResourceNonDelay", res=res_worker(w))
        b.con("UnorderedTaskGroup", tasks=ts, interval=[[0, 3]], length=[])
        bases.append(b.done())
    return bases


def run_C14(tier, seed, replay=None, procs=16):
    import engine
    import props
    import variants as VR
    rng = random.Random(seed + 14)
    full = tier == "thorough"
    bases = [replay["detail"]["base"]] if replay and replay.get("detail", {}).get("base") else _c14_bases(full)
    twins, meta = [], []
    order_states = 0
    for bi, base in enumerate(bases):
        nplain = sum(1 for w in base["workers"] if w["cumul"] == 0)
        sizes = [len(base["tasks"]), nplain, len(base["cons"]) if VR.can_permute_cons(base) else 0, len(base["inds"])]
        orders, st = tlc.builder_orders(sizes)
        order_states += st["distinct"]
        if not VR.can_permute_cons(base):
            orders = [o[:2] + [list(range(1, len(base["cons"]) + 1))] + o[3:] for o in orders]
        ident = [list(range(1, n + 1)) for n in (len(base["tasks"]), nplain, len(base["cons"]), len(base["inds"]))]
        picks = [ident] + rng.sample(orders, min(len(orders), 10 if full else 3))
        for oi, order in enumerate(picks):
            q, maps = VR.permute(base, order)
            for scheme in (list(VR.SCHEMES) if oi <= 1 else ["plain"]) if full else (list(VR.SCHEMES) if oi == 0 else ["prefixes"]):
                r = VR.rename(q, scheme)
                for hist in ((0, 2, 3, 4) if oi == 0 and scheme == "plain" else (0, 2) if oi <= 1 else (1,)):
                    t = copy.deepcopy(r)
                    t["tag"] = f"{base['tag']}/order{oi}/{scheme}/history{hist}"
                    tiny = hist == 3
                    if tiny:
                        hist = 1
                    if hist == 4:
                        # an earlier problem is solved in the middle of this one's declaration
                        t["_opts"] = {"build_kw": {"other_midway": True}}
                        twins.append(t)
                        meta.append({"base": bi, "maps": maps, "order": order, "scheme": scheme, "history": 4})
                        continue
                    if hist:
                        # earlier, unrelated problems that reuse the very same element names
                        others = []
                        for k in range(hist):
                            ob = VR.rename(VR.permute(bases[(bi + 1 + k) % len(bases)], [list(range(1, n + 1)) for n in (
                                len(bases[(bi + 1 + k) % len(bases)]["tasks"]),
                                sum(1 for w in bases[(bi + 1 + k) % len(bases)]["workers"] if w["cumul"] == 0),
                                len(bases[(bi + 1 + k) % len(bases)]["cons"]), len(bases[(bi + 1 + k) % len(bases)]["inds"]))])[0], scheme)
                            others.append(ob)
                        t["_opts"] = {"history": others}
                        if tiny:
                            # the earlier problem was solved under a 1 ms time limit; this one asks for random initial
                            # values: every solver sets the (process-wide) z3 options it needs, whatever ran before
                            t["_opts"].update(history_solver_kw={"max_time": 0.001}, solver_kw={"random_values": True})
                    twins.append(t)
                    meta.append({"base": bi, "maps": maps, "order": order, "scheme": scheme, "history": hist})
    twins = FT.number(twins)
    res = engine.run_family(twins, {"seed": seed, "replay_per_problem": 1}, procs=procs, fresh=True)
    # the specification itself is independent of names and order: V(twin) is the image of V(base)
    baseV, _ = tlc.enumerate_V(FT.number(copy.deepcopy(bases)))
    for t, m in zip(twins, meta):
        vb = baseV[m["base"] + 1]
        img = {VR.map_key(bases[m["base"]], k, m["maps"], t) for k in vb}
        if img != set(res["V"][t["id"]].keys()):
            raise RuntimeError(f"specification not invariant under renaming/permutation for {t['tag']}")
    viol = props.collect("C14", res, {"sound", "complete", "buffers", "indicators"})
    for v in viol:
        i = v["problem"]["id"] - 1
        v["detail"]["twin"] = meta[i] | {"maps": None}
        v["detail"]["base"] = bases[meta[i]["base"]]
    # the enumeration of all schedules (solve, then find_another_solution until it fails) visits every distinct
    # timing exactly once, whatever the names and the declaration order
    import scenarios as SC
    import solver_engine as SE
    cases = []
    for t in twins:
        if t["objs"] or "cumulative_lookalike" in t["tag"] or "busy_collision" in t["tag"]:
            continue
        T = len({SC.timing_key(v) for v in res["V"][t["id"]].values()})
        if 0 < T <= 24:
            cases.append(dict(problem=t, solver_kw={}, mode="incremental", priority="pareto", tracked=[("start", 1)],
                              sequences=[[("solve",)] + [("another",)] * (T + 2)]))
    res_e = SE.run_cases(cases, res["V"], procs=procs) if cases else None
    if res_e:
        ve = SE.violations(res_e, "C14", accept_props={"C12", "C13"})
        for c, o in zip(res_e["cases"], res_e["outs"]):
            if not o["error"] and o["runs"]:
                rets = [e for e in o["runs"][0]["events"] if e["e"] == "ret"]
                if rets and rets[-1]["w"] != 0:
                    ve.append({"kind": "protocol", "summary": "enumeration does not terminate after every distinct timing was visited",
                               "clauses": ["C12_exhaustion"], "problem": c["problem"], "tag": c["problem"]["tag"],
                               "detail": {"calls": o["runs"][0]["calls"], "events": o["runs"][0]["events"]}})
        for v in ve:
            v.setdefault("detail", {})["base"] = None
        viol += ve
    cov = props.coverage_of(res, {"twins": len(twins), "base_problems": len(bases), "naming_schemes": list(VR.SCHEMES),
                                  "builder_order_states": order_states,
                                  "enumerations_to_exhaustion": 0 if not res_e else res_e["stats"]["n_solver_traces"]})
    if res_e:
        cov["states"] += res_e["stats"]["solver_trace"]["distinct"]
        cov["transitions"] += res_e["stats"]["solver_trace"]["generated"]
        cov["traces_validated_against_impl"] += res_e["stats"]["n_solver_traces"] + res_e["stats"]["n_solution_traces"]
    cov["states"] += order_states
    return {"violations": viol, "coverage": cov, "assumptions": ASSUME14,
            "summary": f"{len(bases)} base problems, {len(twins)} renamed / re-ordered twins (fresh process, with and without earlier problems)"}
