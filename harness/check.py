#!/venv/bin/python
"""Entry point of every check registered in MANIFEST.json.

  check.py <Cxx> --tier quick|thorough          run the check of one property
  check.py --replay <file>                      re-run the problem of a replay file

Exit status: 0 the property held on everything explored (KNOWN-FINDING lines for listed
findings), 1 at least one VIOLATION not listed in known_findings.json, 2 the machinery
itself failed (never a verdict).
"""
from __future__ import annotations

import argparse
import json
import os
import sys
import time
import traceback

HERE = os.path.dirname(os.path.abspath(__file__))
ROOT = os.path.dirname(HERE)
sys.path.insert(0, HERE)
os.environ.setdefault("PYTHONHASHSEED", "0")

import evidence  # noqa: E402
import findings  # noqa: E402


def main():
    ap = argparse.ArgumentParser()
    ap.add_argument("prop", nargs="?")
    ap.add_argument("--tier", default=os.environ.get("VERIF_TIER", "quick"))
    ap.add_argument("--replay")
    ap.add_argument("--procs", type=int, default=16)
    args = ap.parse_args()
    seed = int(os.environ.get("VERIF_SEED", "0"))
    tier = "thorough" if args.tier == "thorough" else "quick"
    if args.replay:
        rp = json.load(open(args.replay))
        prop = rp["property"]
    else:
        prop = args.prop
        rp = None
    if not prop:
        ap.error("property id required")
    t0 = time.time()
    try:
        import props
        runner = props.RUNNERS[prop]
        outcome = runner(tier, seed, replay=rp, procs=args.procs)
    except Exception:
        traceback.print_exc()
        print(f"MACHINERY-FAILURE property={prop}")
        sys.exit(2)
    outcome["wall_s"] = round(time.time() - t0, 2)
    known = findings.load()
    new, listed = findings.split(prop, outcome["violations"], known)
    out_dir = os.path.join(evidence.OUT_ROOT, "out", prop)
    os.makedirs(out_dir, exist_ok=True)
    if not rp:
        for f in os.listdir(out_dir):
            if f.startswith("violation_"):
                os.unlink(os.path.join(out_dir, f))
    for sig in sorted({findings.describe(v, k) for v, k in listed}):
        print(f"KNOWN-FINDING: property={prop} {sig}")
    for i, v in enumerate(new[:25]):
        path = os.path.join(out_dir, f"violation_{i + 1}.json")
        with open(path, "w") as f:
            json.dump({"property": prop, "tier": tier, "seed": seed, **v}, f, indent=1, default=str)
        print(f"VIOLATION property={prop} replay={path}  # {v['kind']}: {v['summary']}")
    if not rp:
        evidence.write(prop, tier, seed, outcome, len(new), len(listed))
    print(f"{prop} {tier}: {outcome['summary']}  violations={len(new)} known={len(listed)} wall={outcome['wall_s']}s")
    sys.exit(1 if new else 0)


if __name__ == "__main__":
    main()
