"""Runs the repository's pinned test suite (guard off) and compares with BASELINE.json."""
import json, os, subprocess, sys, tempfile, xml.etree.ElementTree as ET

def main():
    base = json.load(open("/root/.vp/BASELINE.json"))
    want = set(base["stable_pass"])
    fd, path = tempfile.mkstemp(suffix=".xml"); os.close(fd)
    env = dict(os.environ); env.pop("PROCESSSCHEDULER_VERIF", None)
    subprocess.run(["/venv/bin/python", "-m", "pytest", "-q", "-p", "no:cacheprovider", "--timeout=900",
                    "--continue-on-collection-errors", f"--junitxml={path}"] + sys.argv[1:],
                   cwd="/repo", env=env, stdout=subprocess.DEVNULL, stderr=subprocess.DEVNULL)
    passed = set()
    for tc in ET.parse(path).getroot().iter("testcase"):
        if not any(ch.tag in ("failure", "error", "skipped") for ch in tc):
            passed.add(f"{tc.get('classname')}::{tc.get('name')}")
    os.unlink(path)
    missing = sorted(want - passed)
    print(f"baseline: {len(want)} expected, {len(want & passed)} passed, {len(missing)} missing")
    for m in missing:
        print("  MISSING", m)
    sys.exit(1 if missing else 0)

main()
