"""Runners of the solver-object properties C07, C12, C13, C15, C19."""
from __future__ import annotations

import copy
import itertools
import json
import random
import re

import scenarios as SC
import solver_engine as SE
import tlc
from families import solver as FS
from problems import number

ASSUME = [
    "TLC 1.8 + CommunityModules, z3, CPython, pydantic are trusted",
    "the oracle V(P) is the set TLC enumerates from Timeline for small problems (<= 3 tasks, horizon <= 5); problems with unspecified corners or rounding indicators as objective are skipped",
    "z3 is a black box that may return any allowed model; a recording proxy substituted for solver._solver observes check/push/pop/add",
    "time limits are explored with a scripted clock substituted for time.perf_counter inside processscheduler.solver",
    "unknown answers and logics that do not cover the problem are non-definite: counted, never alarms",
]

GENERIC = dict(pts=[dict(s=1, t=1, o=[2], x=[0]), dict(s=2, t=2, o=[1], x=[1]), dict(s=3, t=2, o=[0], x=[1])],
               dir="min", weights=[1], bound=[], mode="incremental", priority="pareto", max_iter=[],
               unknown_ok=False, outside_fragment=False, time_stops=True, nvars=1)


def spec_sequences(n, seed, maxcalls=6):
    """Call sequences taken from behaviours TLC generates from Solver (simulation mode)."""
    seqs = tlc.simulate_calls(GENERIC, num=n, depth=12 * maxcalls, seed=seed + 1, maxcalls=maxcalls)
    seqs += tlc.simulate_calls(dict(GENERIC, dir="none", weights=[], mode="sat"), num=n, depth=12 * maxcalls,
                               seed=seed + 2, maxcalls=maxcalls)
    out = []
    for s in seqs:
        if s not in out:
            out.append(s)
    return out


FIXED = [
    [("solve",)],
    [("solve",), ("solve",)],
    [("initialize",), ("export",), ("solve",), ("solve",)],
    [("export",), ("solve",), ("another",), ("solve",)],
    [("solve",), ("another",), ("another",), ("solve",), ("another",)],
    [("solve",), ("another_var", 1), ("solve",), ("another",)],
    [("solve",), ("export",), ("another",), ("initialize",), ("another_var", 1), ("another",)],
]

MODES = [("incremental", "pareto", {}), ("optimize", "weight", {"optimizer": "optimize", "optimize_priority": "weight"}),
         ("optimize", "pareto", {"optimizer": "optimize", "optimize_priority": "pareto"}),
         ("optimize", "lex", {"optimizer": "optimize", "optimize_priority": "lex"})]


def _cov(res, st_enum, problems, V, extra_states=0):
    st = res["stats"]
    samples = []
    for c, o in list(zip(res["cases"], res["outs"]))[:: max(1, len(res["cases"]) // 3)][:3]:
        if o["runs"]:
            r = o["runs"][-1]
            samples.append({"problem_tag": c["problem"]["tag"], "config": c["solver_kw"], "calls": r["calls"],
                            "events": r["events"][:40], "verdict": r["verdict"]})
    return {
        "states": st_enum["distinct"] + st["solver_trace"]["distinct"] + st["timeline_trace"]["distinct"] + extra_states,
        "transitions": st_enum["generated"] + st["solver_trace"]["generated"] + st["timeline_trace"]["generated"] + extra_states,
        "traces_validated_against_impl": st["n_solver_traces"] + st["n_solution_traces"],
        "samples": samples,
        "problems": len(problems),
        "cases": len(res["cases"]),
        "call_histories_replayed": st["n_solver_traces"],
        "returned_solutions_validated": st["n_solution_traces"],
        "valid_schedules_enumerated": sum(len(v) for v in V.values()),
        "skipped_unspecified": st["skipped_unspecified"],
        "tlc": {"enumeration": st_enum, "solver_trace": st["solver_trace"], "timeline_trace": st["timeline_trace"]},
    }


def _spec_check(cfg="MC_Solver.cfg", max_pts=3):
    """Model-checks the Solver specification itself on all small scenarios."""
    import tempfile, os
    sc = SC.small_scenarios(max_pts=max_pts)
    d = tempfile.mkdtemp(prefix="mcs_")
    try:
        f = os.path.join(d, "sc.json")
        json.dump(sc, open(f, "w"))
        if cfg == "MC_Solver.cfg":
            # with the per-action counts (vacuity audit: an action never taken was never checked)
            acts, st = tlc.action_coverage("MC_Solver", cfg, {"SCENARIO_FILE": f}, timeout=3600)
            acts = {a: n for a, n in acts.items() if a not in ("Init",) or True}
            st = dict(st, actions_taken=acts, actions_never_taken=sorted(a for a, n in acts.items() if n == 0))
        else:
            lines, st = tlc.run_tlc("MC_Solver", cfg, {"SCENARIO_FILE": f}, timeout=3600)
        return st, len(sc)
    finally:
        import shutil
        shutil.rmtree(d, ignore_errors=True)


def run_C13(tier, seed, replay=None, procs=16):
    rng = random.Random(seed)
    full = tier == "thorough"
    st_spec, nsc = _spec_check(max_pts=3 if full else 2)
    if replay:
        ps = number([replay["problem"]])
        cfgs = [replay["detail"]["config"]]
    objs = FS.OBJECTIVES if full else ["none", "makespan", "flowtime", "max_expr", "min_bounded", "cost", "two_min"]
    if not replay:
        ps = number(FS.pool(objs) + FS.pool(["none", "makespan", "flowtime"], shapes=("buffer-final",)))
    V, st_enum = SE.prepare(ps)
    seqs = FIXED + spec_sequences(30 if full else 8, seed)
    cases = []
    for p in ps:
        for mode, prio, kw in MODES:
            if not p["objs"] and mode == "optimize":
                continue
            if prio == "lex" and len(p["objs"]) < 2:
                continue
            if replay and (replay["detail"]["config"]["mode"], replay["detail"]["config"]["priority"]) != (mode, prio):
                continue
            my = seqs if full else (FIXED + rng.sample(seqs[len(FIXED):], min(4, len(seqs) - len(FIXED))))
            if replay:
                my = [[tuple(c) for c in replay["detail"]["calls"]]]
            cases.append(dict(problem=p, solver_kw=kw, mode=mode, priority=prio, tracked=[("start", 1)], sequences=my))
            if mode == "incremental" and p["objs"] and not replay:
                # early stops of the incremental loop (iteration limit, time limit) followed by further calls
                short = [s for s in my if len(s) >= 2][:4] + [[("solve",), ("solve",), ("another",), ("solve",)]]
                for k in (1, 2):
                    cases.append(dict(problem=p, solver_kw=dict(kw, max_iter=k), mode=mode, priority=prio, max_iter=k,
                                      tracked=[("start", 1)], sequences=short))
                cases.append(dict(problem=p, solver_kw=kw, mode=mode, priority=prio, clock_step=11.0,
                                  tracked=[("start", 1)], sequences=short))
    if replay:
        cfgr = replay["detail"]["config"]
        for c in cases:
            c["max_iter"] = cfgr.get("max_iter")
            c["clock_step"] = cfgr.get("clock_step")
            if cfgr.get("max_iter"):
                c["solver_kw"] = dict(c["solver_kw"], max_iter=cfgr["max_iter"])
    res = SE.run_cases(cases, V, procs=procs)
    viol = SE.violations(res, "C13")
    cov = _cov(res, st_enum, ps, V, extra_states=st_spec["distinct"])
    cov["spec_model_checking"] = {"scenarios": nsc, **st_spec, "config": "MC_Solver.cfg (PopOnExit = TRUE, all properties as invariants)"}
    cov["call_sequences_from_spec"] = len(seqs) - len(FIXED)
    return {"violations": viol, "coverage": cov, "assumptions": ASSUME,
            "summary": f"{len(ps)} problems, {len(cases)} cases, {cov['call_histories_replayed']} histories, spec states={st_spec['distinct']}"}


def run_C12(tier, seed, replay=None, procs=16):
    full = tier == "thorough"
    st_spec, nsc = _spec_check(max_pts=3 if full else 2)
    ps = number([replay["problem"]]) if replay else number(
        # max_bounded / min_bounded: the optimum equals the declared bound of the indicator, so the incremental
        # optimiser leaves its loop through the "bound reached" exit before the enumeration starts
        FS.pool(["none", "makespan", "flowtime", "max_bounded", "min_bounded"] if full else ["none", "makespan", "max_bounded"],
                shapes=("plain", "optional", "select", "variable", "buffer", "single", "infeasible")))
    V, st_enum = SE.prepare(ps)
    cases = []
    for p in ps:
        T = len({SC.timing_key(v) for v in V[p["id"]].values()})
        if T > 60:
            continue
        seqs = [[("solve",)] + [("another",)] * (T + 2),
                [("solve",)] + [("another_var", 1)] * 6,
                [("solve",), ("another",), ("another_var", 2), ("another",), ("another_var", 1)] + [("another",)] * (T + 1)]
        if replay:
            seqs = [[tuple(c) for c in replay["detail"]["calls"]]]
        for mode, prio, kw in MODES[:2]:
            if not p["objs"] and mode == "optimize":
                continue
            cases.append(dict(problem=p, solver_kw=kw, mode=mode, priority=prio,
                              tracked=[("start", 1), ("end", len(p["tasks"]))], sequences=seqs))
            if not replay:
                # another problem is created right after the first answer: the enumeration goes on over THIS problem
                cases.append(dict(problem=p, solver_kw=kw, mode=mode, priority=prio, later_problem=True,
                                  tracked=[("start", 1), ("end", len(p["tasks"]))], sequences=seqs[:1]))
                if mode == "incremental" and p["objs"]:
                    # the optimisation is cut short (max_iter=1) before the enumeration starts
                    cases.append(dict(problem=p, solver_kw=dict(kw, max_iter=1), mode=mode, priority=prio, max_iter=1,
                                      tracked=[("start", 1), ("end", len(p["tasks"]))], sequences=seqs[:1]))
    res = SE.run_cases(cases, V, procs=procs)
    viol = SE.violations(res, "C12", accept_props={"C13"})
    # exhaustion: the history solve, another^(T+2) must end with False
    for c, o in zip(res["cases"], res["outs"]):
        if o["error"] or not o["runs"]:
            continue
        r = o["runs"][0]
        rets = [e for e in r["events"] if e["e"] == "ret"]
        if rets and rets[-1]["w"] != 0 and not rets[-1]["raised"] and not replay:
            viol.append({"kind": "protocol", "summary": "repeating find_another_solution beyond the number of distinct timings still returns a schedule",
                         "clauses": ["C12_exhaustion"], "problem": c["problem"], "tag": c["problem"]["tag"],
                         "detail": {"config": {"solver_kw": c["solver_kw"], "mode": c["mode"], "priority": c["priority"]},
                                    "calls": r["calls"], "events": r["events"]}})
    # liveness of the enumeration on the specification (weak fairness, no state constraint)
    st_live, nlive = _spec_check(cfg="MC_Solver_live.cfg", max_pts=3)
    cov = _cov(res, st_enum, ps, V, extra_states=st_spec["distinct"] + st_live["distinct"])
    cov["spec_model_checking"] = {"scenarios": nsc, **st_spec}
    cov["spec_liveness_exhaustion"] = {"scenarios": nlive, "property": "Exhausts under LiveSpec (WF)", **st_live}
    return {"violations": viol, "coverage": cov, "assumptions": ASSUME,
            "summary": f"{len(ps)} problems, {cov['call_histories_replayed']} histories to exhaustion"}


def run_C07(tier, seed, replay=None, procs=16):
    full = tier == "thorough"
    st_spec, nsc = _spec_check(max_pts=3 if full else 2)
    objs = [o for o in FS.OBJECTIVES if o != "none"]
    if not full:
        objs = ["makespan", "flowtime", "start_latest", "max_expr", "min_bounded", "max_bounded", "cost", "two_min", "two_max", "two_min_w0",
                "max_buffer", "min_buffer", "min_lateness", "min_tardiness"]
    if replay:
        ps = number([replay["problem"]])
    else:
        # the objective pool, plus cross-feature problems carrying one random objective (families/mixed.py)
        from families import mixed as F_mixed
        ps = number(FS.pool(objs, shapes=("plain", "optional", "select", "variable", "buffer", "single"))
                    + FS.pool(["makespan", "flowtime", "start_latest"], shapes=("all-optional",))
                    + F_mixed.fam_mixed(tier, seed, "objective", n=60 if full else 14))
    V, st_enum = SE.prepare(ps)
    cases = []
    for p in ps:
        base = dict(problem=p, tracked=[("start", 1)], sequences=[[("solve",)], [("solve",), ("solve",)]])
        cases.append(dict(base, solver_kw={}, mode="incremental", priority="pareto"))
        cases.append(dict(base, solver_kw={"optimizer": "optimize", "optimize_priority": "weight"}, mode="optimize", priority="weight"))
        for k in (1, 2, 3, 4, 6) if full else (1, 2, 3):
            cases.append(dict(base, solver_kw={"max_iter": k}, mode="incremental", priority="pareto", max_iter=k))
        for step in (25.0, 11.0, 7.0, 5.0, 4.0) if full else (11.0, 5.0):
            cases.append(dict(base, solver_kw={}, mode="incremental", priority="pareto", clock_step=step,
                              sequences=[[("solve",)]]))
    if replay:
        cases = [c for c in cases if (c.get("max_iter"), c.get("clock_step"), c["mode"]) ==
                 (replay["detail"]["config"].get("max_iter"), replay["detail"]["config"].get("clock_step"), replay["detail"]["config"]["mode"])]
    res = SE.run_cases(cases, V, procs=procs)
    viol = SE.violations(res, "C07", accept_props={"C13"})
    cov = _cov(res, st_enum, ps, V, extra_states=st_spec["distinct"])
    cov["spec_model_checking"] = {"scenarios": nsc, **st_spec}
    cov["interruption_points"] = sum(1 for c in res["cases"] if c.get("max_iter") or c.get("clock_step"))
    return {"violations": viol, "coverage": cov, "assumptions": ASSUME,
            "summary": f"{len(ps)} problems, {len(cases)} cases ({cov['interruption_points']} with an interruption point)"}


LOGICS = [None, "QF_LRA", "HORN", "QF_LIA", "QF_RDL", "QF_IDL", "QF_AUFLIA", "QF_ALIA", "QF_AUFLIRA", "QF_AUFNIA",
          "QF_AUFNIRA", "QF_ANIA", "QF_LIRA", "QF_UFLIA", "QF_UFLRA", "QF_UFIDL", "QF_UFRDL", "QF_NIRA", "QF_UFNRA",
          "QF_UFNIA", "QF_UFNIRA", "QF_S", "QF_SLIA", "UFIDL", "QF_FPLRA"]


def run_C15(tier, seed, replay=None, procs=16):
    rng = random.Random(seed + 15)
    full = tier == "thorough"
    ps = number([replay["problem"]]) if replay else number(
        FS.pool(["none", "makespan", "flowtime", "min_bounded", "max_bounded", "two_min", "two_max", "two_min_w0"],
                shapes=("plain", "optional", "variable", "infeasible")))
    if not replay:
        # element names that coincide with names the library generates for its own z3 constants (legal: names only
        # have to be unique per kind): every configuration, debug mode included, must treat them as plain names
        from problems import PB
        extra = []
        for cname in ("B_scheduled", "A_start", "W_busy_A_end"):
            b = PB(4, tag="generated-name-as-constraint-name")
            a = b.task("A", "F", dur=2)
            c = b.task("B", "F", dur=1, optional=True)
            w = b.worker("W")
            b.require(a, worker=w)
            b.require(c, worker=w)
            b.con("TaskEndBefore", name=cname, task=a, value=4, kind="lax")
            b.obj("ObjectiveMinimizeMakespan")
            extra.append(b.done())
        ps = number(ps + extra)
    V, st_enum = SE.prepare(ps)
    grid = []
    for opt, prio, par, rv, dbg, lg in itertools.product(("incremental", "optimize"), ("pareto", "lex", "box", "weight"),
                                                         (False, True), (False, True), (False, True), LOGICS):
        grid.append((opt, prio, par, rv, dbg, lg))
    cases = []
    for p in ps:
        my = grid if full else rng.sample(grid, 36)
        if not full:
            # the default switches are always part of the quick sample, for both optimisers
            my = [g for g in grid if g[2:] == (False, False, False, None) and g[1] in ("pareto", "weight")] + my
        if full:
            # the full grid on every problem is large: all logics with the default switches, all switches with 3 logics
            my = [g for g in grid if (g[2:5] == (False, False, False)) or g[5] in (None, "QF_LIA", "QF_UFLIA")]
        for opt, prio, par, rv, dbg, lg in my:
            if opt == "incremental" and prio != "pareto":
                continue  # optimize_priority is ignored by the incremental optimiser
            if not p["objs"] and opt == "optimize":
                continue
            if prio == "box":
                continue  # box mode reports one optimum per objective, not one schedule: outside C15's agreement clause
            if prio == "lex" and len(p["objs"]) < 2:
                continue
            kw = {"optimizer": opt, "optimize_priority": prio, "parallel": par, "random_values": rv, "debug": dbg}
            if lg is not None:
                kw["logics"] = lg
            # the built-in optimiser ignores `logics`; otherwise only logics covering linear integer arithmetic are definite
            covered = (lg in SE.LIA_LOGICS) or (opt == "optimize" and bool(p["objs"]))
            seqs = [[("solve",)]]
            if (par, rv, dbg) == (False, False, False) and lg in (None, "QF_LIA"):
                # the same configuration asked twice, and after an explicit (re-)initialisation
                seqs += [[("solve",), ("solve",)], [("initialize",), ("initialize",), ("solve",), ("solve",)]]
            cases.append(dict(problem=p, solver_kw=kw, mode=opt, priority=prio, tracked=[("start", 1)],
                              sequences=seqs, unknown_ok=True, outside_fragment=not covered))
    if replay:
        cases = [c for c in cases if c["solver_kw"] == replay["detail"]["config"]["solver_kw"]]
    res = SE.run_cases(cases, V, procs=procs)
    viol = SE.violations(res, "C15", accept_props={"C13", "C07"})
    cov = _cov(res, st_enum, ps, V)
    nondef = sum(1 for o in res["outs"] for r in o["runs"] for e in r["events"] if e["e"] == "check" and e["r"] == "unknown")
    cov["configurations"] = len(cases)
    cov["non_definite_answers"] = nondef
    return {"violations": viol, "coverage": cov, "assumptions": ASSUME,
            "summary": f"{len(ps)} problems x configurations = {len(cases)} runs, {nondef} non-definite answers"}


_CONFLICT = re.compile(r"->\s*(\w+)\(\s*name='([^']*)'")


def _infeasible_problems(full):
    from problems import PB
    ps = []
    pads = (0, 1, 3) if full else (0, 2)
    grid = list(itertools.product(("startat-endat", "precedence-cycle", "deadline-worker", "unavailable", "unavailable-2",
                                   "force-n", "buffer", "force-apply", "workload", "indicator-bounds",
                                   "two-reasons", "two-reasons-shared", "nested-before"), pads, (False,)))
    # the same conflicts with human-readable constraint names (spaces, punctuation, accents, a leading digit)
    grid += [(k, 0, True) for k in ("startat-endat", "deadline-worker", "unavailable", "force-apply", "two-reasons")]
    readable = {"k1": "règle n°1: début", "k2": "2nd rule (end, strict)", "k3": "rule 3 / other task", "k4": "4: fin"}
    for kind, pad, nice in grid:
        b = PB(4, tag=f"infeasible-{kind}/pad{pad}" + ("/readable-names" if nice else ""))
        a = b.task("A", "F", dur=2)
        c = b.task("B", "F", dur=1)
        d = b.task("C", "F", dur=1, optional=True)
        w = b.worker("W")
        b.require(a, worker=w)
        b.require(c, worker=w)
        if kind == "startat-endat":
            b.con("TaskStartAt", name="k1", task=a, value=1)
            b.con("TaskEndAt", name="k2", task=a, value=2)
        elif kind == "precedence-cycle":
            b.con("TaskPrecedence", name="k1", before=a, after=c, offset=0, kind="lax")
            b.con("TaskPrecedence", name="k2", before=c, after=a, offset=0, kind="strict")
        elif kind == "deadline-worker":
            b.con("TaskEndBefore", name="k1", task=a, value=2, kind="lax")
            b.con("TaskEndBefore", name="k2", task=c, value=2, kind="lax")
        elif kind == "unavailable":
            from problems import res_worker
            b.con("ResourceUnavailable", name="k1", res=res_worker(w), intervals=[[0, 2]])
            b.con("TaskEndBefore", name="k2", task=a, value=3, kind="lax")
        elif kind == "unavailable-2":
            # the conflict goes through the FIRST interval of a multi-interval constraint
            from problems import res_worker
            b.con("ResourceUnavailable", name="k1", res=res_worker(w), intervals=[[0, 2], [3, 4]])
            b.con("TaskEndBefore", name="k2", task=a, value=2, kind="lax")
        elif kind == "workload":
            from problems import res_worker
            b.con("WorkLoad", name="k1", res=res_worker(w), intervals=[[0, 4, 2]], kind="max")
        elif kind == "force-apply":
            # two optional constraints that cannot both hold, forced by a ForceApplyN rule
            k1 = b.con("TaskStartAt", name="k1", task=a, value=0, optional=True)
            k2 = b.con("TaskStartAt", name="k2", task=c, value=0, optional=True)
            b.con("ForceApplyNOptionalConstraints", name="k3", cons=[k1, k2], n=2, kind="min")
        elif kind == "indicator-bounds":
            # the conflict goes through the UPPER bound of an indicator constraint
            i = b.ind("IndicatorFromMathExpression", name="gap", expr={"op": "start", "task": a})
            b.con("IndicatorBounds", name="k1", ind=i, lower=[0], upper=[1])
            b.con("TaskStartAfter", name="k2", task=a, value=2, kind="lax")
        elif kind == "two-reasons":
            # two INDEPENDENT reasons: whatever is listed must still be infeasible on its own
            b.con("TaskStartAt", name="k1", task=a, value=1)
            b.con("TaskEndAt", name="k2", task=a, value=2)
            b.con("TaskStartAt", name="k3", task=c, value=2)
            b.con("TaskEndAt", name="k4", task=c, value=2)
        elif kind == "two-reasons-shared":
            # two reasons that share one constraint (k1)
            b.con("TaskStartAt", name="k1", task=a, value=1)
            b.con("TaskEndAt", name="k2", task=a, value=2)
            b.con("TaskEndAt", name="k3", task=a, value=4)
        elif kind == "nested-before":
            # a constraint that is only an operand (of Not) and an irrelevant one are declared BEFORE the conflicting pair
            from problems import o_con
            n0 = b.con("TaskStartAt", name="n0", task=c, value=3)
            b.con("Not", name="n1", x=o_con(n0))
            b.con("TaskPrecedence", name="extra", before=c, after=a, offset=0, kind="lax", optional=True)
            b.con("TaskStartAt", name="k1", task=a, value=1)
            b.con("TaskEndBefore", name="k2", task=a, value=2, kind="lax")
        elif kind == "force-n":
            b.con("OptionalTaskForceSchedule", name="k1", task=d, flag=True)
            b.con("TaskStartAt", name="k2", task=d, value=4)
        elif kind == "buffer":
            bf = b.buffer("Bf", initial=0, lower=0)
            b.unload(a, bf, 1, name="k1")
            b.con("TaskStartAt", name="k2", task=c, value=0)
        for i in range(pad):
            b.con("TaskStartAfter", name=f"pad{i}", task=c, value=0, kind="lax")
        q = b.done()
        if nice:
            for k in q["cons"]:
                k["name"] = readable.get(k["name"], k["name"])
            for bf in q["buffers"]:
                for op in bf["ops"]:
                    op["name"] = readable.get(op["name"], op["name"])
        ps.append(q)
    return ps


def run_C19(tier, seed, replay=None, procs=16):
    full = tier == "thorough"
    if replay:
        ps = number([replay["problem"]])
    else:
        ps = number(_infeasible_problems(full) + FS.pool(["none", "makespan"], shapes=("plain", "optional", "infeasible")))
    V, st_enum = SE.prepare(ps)
    cases = []
    for p in ps:
        for dbg in (True, False):
            for mode, prio, kw in MODES[:2]:
                if not p["objs"] and mode == "optimize":
                    continue
                # (the diagnosis must be the same when the model was exported / initialised before solving)
                cases.append(dict(problem=p, solver_kw=dict(kw, debug=dbg), mode=mode, priority=prio, tracked=[("start", 1)],
                                  sequences=[[("solve",)], [("export",), ("solve",)]] if dbg and mode == "incremental" else [[("solve",)]],
                                  keep_stdout=dbg))
    res = SE.run_cases(cases, V, procs=procs)
    viol = SE.violations(res, "C19", accept_props={"C13", "C07"})
    # the diagnosis: names printed after "->" when the verdict is "no solution"
    subs, owners = [], []
    n_diag = 0
    pairs = [(c, o, r) for c, o in zip(res["cases"], res["outs"]) if not o["error"] and c["solver_kw"].get("debug") for r in o["runs"]]
    for c, o, r in pairs:
        p = c["problem"]
        rets = [e for e in r["events"] if e["e"] == "ret"]
        if not rets or rets[-1]["w"] != 0 or "Unsatisfied constraints" not in r["stdout"]:
            continue
        n_diag += 1
        text = r["stdout"].split("Unsatisfied constraints", 1)[1]
        names = [m.group(2) for m in _CONFLICT.finditer(text)]
        mcount = re.search(r"conflict between (\d+) constraints", text)
        if mcount is None:
            # the printed diagnosis is not in the format this harness reads: a machinery failure, not a verdict
            raise RuntimeError(f"cannot parse the debug diagnosis of {p['tag']}: no count announced, parsed {names}")
        if int(mcount.group(1)) != len(names):
            # the library announces a conflict between N constraints and then names another number of them
            viol.append({"kind": "diagnosis", "summary": f"the diagnosis announces a conflict between {mcount.group(1)} constraints but names {len(names)}: {names}",
                         "clauses": ["C19_every_conflicting_constraint_is_named"], "problem": p, "tag": p["tag"],
                         "detail": {"config": {"solver_kw": c["solver_kw"], "mode": c["mode"], "priority": c["priority"]},
                                    "names": names, "stdout": text[:2000]}})
            continue
        known = {k["name"] for k in p["cons"]} | {op["name"] for bf in p["buffers"] for op in bf["ops"]}
        alien = [n for n in names if n not in known]
        cfg = {"solver_kw": c["solver_kw"], "mode": c["mode"], "priority": c["priority"]}
        if alien:
            viol.append({"kind": "diagnosis", "summary": f"diagnosis names {alien} which are not constraints of the problem",
                         "clauses": ["C19_names_are_constraints"], "problem": p, "tag": p["tag"],
                         "detail": {"config": cfg, "names": names, "stdout": text[:2000]}})
            continue
        # the sub-problem made of the named constraints and the basic rules must admit no schedule
        q = copy.deepcopy(p)
        # the listed constraints stay; operands of a listed connective are part of its meaning and stay too;
        # every other constraint is replaced by a vacuous stand-in with the same optional flag (so that
        # indices and ForceApplyN references remain meaningful)
        kept = {i for i, k in enumerate(q["cons"]) if k["name"] in names}
        changed = True
        while changed:
            changed = False
            for i in list(kept):
                k = q["cons"][i]
                for key in ("x", "y"):
                    if key in k and k[key]["t"] == "con" and k[key]["i"] - 1 not in kept:
                        kept.add(k[key]["i"] - 1)
                        changed = True
                for key in ("xs", "ys"):
                    for o in k.get(key, []):
                        if o["t"] == "con" and o["i"] - 1 not in kept:
                            kept.add(o["i"] - 1)
                            changed = True
        for i, k in enumerate(q["cons"]):
            if i not in kept:
                q["cons"][i] = {"name": k["name"], "cls": "ConstraintFromExpression", "optional": k["optional"], "top": k["top"],
                                "expr": {"op": "true"}}
        # buffers with their bounds and their load / unload registrations are "basic buffer rules"
        # (the library encodes them in its buffer section, they carry no assertion of their own): they stay
        q["objs"] = []   # (indicators are definitions, not constraints: they stay, indicator constraints may refer to them)
        q["tag"] = p["tag"] + "#core"
        subs.append(q)
        owners.append((c, r, names, cfg, text))
    if subs:
        subs = number(subs)
        VS, st_sub = tlc.enumerate_V(subs)
        for q, (c, r, names, cfg, text) in zip(subs, owners):
            if len(VS[q["id"]]) > 0:
                one = next(iter(VS[q["id"]].values()))
                viol.append({"kind": "diagnosis", "summary": f"the constraints named as conflicting {names} (with the basic rules) admit a schedule",
                             "clauses": ["C19_named_constraints_conflict"], "problem": c["problem"], "tag": c["problem"]["tag"],
                             "detail": {"config": cfg, "names": names, "a_schedule_of_the_named_subset": {k: one[k] for k in ("sched", "s", "e")},
                                        "stdout": text[:2000]}})
    else:
        st_sub = {"generated": 0, "distinct": 0}
    # debug mode never changes the verdict
    byp = {}
    for c, o in zip(res["cases"], res["outs"]):
        if o["error"]:
            continue
        rets = [e for e in o["runs"][0]["events"] if e["e"] == "ret"]
        byp.setdefault((c["problem"]["id"], c["mode"]), {})[bool(c["solver_kw"].get("debug"))] = (rets[-1]["w"] != 0, c)
    for (pid, mode), d in byp.items():
        if True in d and False in d and d[True][0] != d[False][0]:
            c = d[True][1]
            viol.append({"kind": "protocol", "summary": f"debug mode changes the verdict ({d[False][0]} -> {d[True][0]})",
                         "clauses": ["C19_debug_same_verdict"], "problem": c["problem"], "tag": c["problem"]["tag"],
                         "detail": {"config": {"solver_kw": c["solver_kw"], "mode": c["mode"], "priority": c["priority"]}}})
    cov = _cov(res, st_enum, ps, V, extra_states=st_sub["distinct"])
    cov["diagnoses_examined"] = n_diag
    cov["named_subproblems_enumerated"] = len(subs)
    return {"violations": viol, "coverage": cov, "assumptions": ASSUME,
            "summary": f"{len(ps)} problems, {n_diag} diagnoses examined, {len(subs)} named sub-problems re-enumerated by TLC"}


RUNNERS = {"C07": run_C07, "C12": run_C12, "C13": run_C13, "C15": run_C15, "C19": run_C19}
