"""Per-property runners.  Each returns
  {"violations": [...], "coverage": {...}, "summary": str, "assumptions": [...]}.
"""
from __future__ import annotations

import collections
import json
import random

import engine
import findings
import tlc
from families import tasks as F_tasks

ASSUME_ENC = [
    "TLC 1.8 + CommunityModules, z3 (the library's own backend), CPython, pydantic are trusted",
    "bounded families: horizons <= 6 (<= 10 for periodic calendars), <= 3-4 tasks, <= 3 workers; exhaustive inside the family, nothing claimed outside",
    "unspecified corners (spec/Semantics.tla UnspecCon, Indicators.tla UnspecInd) are excluded from the completeness direction",
    "z3 'unknown' answers of harness queries are counted as inconclusive, never as violations",
    "private attributes read by the projection: _solver, _busy_intervals, _scheduled, _applied, _indicator_variable, _buffer_levels, _level_changes_time",
]


def _short(p):
    return {"id": p["id"], "tag": p["tag"], "H": p["H"],
            "tasks": [(t["name"], t["kind"], t["dur"] if t["kind"] == "F" else (t["min"], t["max"], t["allowed"]),
                       "opt" if t["optional"] else "mand") for t in p["tasks"]],
            "cons": [{k: v for k, v in c.items() if k not in ("top",)} for c in p["cons"]],
            "n_uses": len(p["uses"]), "n_buffers": len(p["buffers"]), "n_inds": len(p["inds"])}


def collect(prop, res, directions):
    """Turns engine results into violation records for one property."""
    probs = {p["id"]: p for p in res["problems"]}
    out = []

    def add(kind, p, summary, clauses=(), **detail):
        out.append({"kind": kind, "summary": summary, "clauses": list(clauses), "problem": p,
                    "tag": p["tag"], "detail": detail})

    for r in res["results"]:
        p = probs[r["id"]]
        for e in r["errors"]:
            if "sound" in directions or "complete" in directions:
                add("exception", p, f"{e['stage']}: {e['exc']}", [e["exc"].split(":")[0]], error=e)
        if "sound" in directions:
            for w in r["witnesses"]:
                vd = w.get("verdict")
                if vd is None:
                    add("admits-invalid", p, "schedule admitted by the assertions is not a Timeline behaviour "
                        f"(could not be reproduced through solve(): {w.get('error')})", ["not-reproduced"],
                        raw=w["v"]["raw"], abstract={k: w["v"][k] for k in ("sched", "s", "e", "used", "bs", "be", "ap")})
                elif not vd["accept"]:
                    add("admits-invalid", p, "solve() returns a schedule TLC rejects: " + ",".join(vd["why"]), vd["why"],
                        raw=w["v"]["raw"], trace=w["trace"], solution=w.get("solution"))
                else:
                    add("admits-invalid", p, "model admitted by the assertions projects outside V(P) although the "
                        "reported solution is accepted (model and report disagree)", ["model-vs-report"],
                        raw=w["v"]["raw"], trace=w["trace"], solution=w.get("solution"))
            for t in r["traces"]:
                vd = t["verdict"]
                if not vd["accept"]:
                    add("returns-invalid", p, f"{t['kind']} solve() returned a schedule TLC rejects: " + ",".join(vd["why"]),
                        vd["why"], trace=t["trace"], solution=t.get("solution"))
        if "buffers" in directions:
            for bb in r["buf_bad"]:
                add("buffer-mismatch", p, f"buffer levels held by the solver differ from the specification ({bb['kind']})",
                    ["R_buffer_history"], reported=bb["reported"], expected=bb["v"]["hist"],
                    schedule=tlc.key_of(bb["v"]))
        if "indicators" in directions:
            for ib in r["ind_bad"]:
                add("indicator-mismatch", p, f"indicator variable can take {ib['values']} where the definition gives {ib['v']['ind']}",
                    ["R_indicator"], values=ib["values"], expected=ib["v"]["ind"], schedule=tlc.key_of(ib["v"]))
        if "complete" in directions:
            if r.get("n_lost"):
                # one violation per group of lost schedules that share the same set of known-finding
                # predicates (so that a different loss in the same problem is still reported)
                groups = collections.OrderedDict()
                for v in r["lost"]:
                    sig = tuple(sorted(n for n, f in findings.PREDICATES.items() if n.startswith("lost:") and f(p, {"example": v})))
                    groups.setdefault(sig, []).append(v)
                for sig, vs in groups.items():
                    v = vs[0]
                    add("rejects-valid", p, f"{len(vs)} valid schedule(s) not admitted, e.g. {tlc.key_of(v)}", ["lost"] + list(sig),
                        n_lost=len(vs), example={k: v[k] for k in ("sched", "s", "e", "used", "bs", "be", "ap", "lv0")})
            d = r.get("default")
            if d and not d["solved"] and d["V_must"] > 0 and not r.get("n_lost"):
                add("solve-false", p, f"solve() reports no solution although {d['V_must']} valid schedules exist", ["solve-false"])
            lost_keys = {tlc.key_of(v) for v in r["lost"]}
            o = r.get("optimum")
            if o and o["got"] != o["best"]:
                add("wrong-optimum", p, f"solve() ends on objective value {o['got']} where the best valid schedule reaches {o['best']}",
                    ["optimum"], **o)
            for m in r["replay_mismatch"]:
                if tlc.key_of(m["v"]) in lost_keys:
                    continue  # already reported as a lost schedule
                add("pin-not-honoured", p, "pinning a valid schedule and solving does not return it", ["pin"],
                    want=tlc.key_of(m["v"]), got=m["got"])
    return out


def coverage_of(res, extra=None):
    n_v = sum(len(v) for v in res["V"].values())
    n_must = sum(1 for vs in res["V"].values() for v in vs.values() if not v.get("unspec"))
    rs = res["results"]
    samples = []
    for p in res["problems"][:: max(1, len(res["problems"]) // 4)][:4]:
        vs = res["V"][p["id"]]
        one = next(iter(vs.values()), None)
        r = next(x for x in rs if x["id"] == p["id"])
        samples.append({"problem": _short(p), "V_size": len(vs),
                        "a_valid_schedule": None if one is None else {k: one[k] for k in ("sched", "s", "e", "used", "bs", "be")},
                        "a_validated_trace": (r["traces"][0]["trace"]["instants"] if r["traces"] else None),
                        "verdict": (r["traces"][0]["verdict"] if r["traces"] else None)})
    cov = {
        "states": res["stats"]["enum"]["distinct"] + res["stats"]["trace"]["distinct"],
        "transitions": res["stats"]["enum"]["generated"] + res["stats"]["trace"]["generated"],
        "traces_validated_against_impl": res["stats"]["n_traces"],
        "samples": samples,
        "exhaustive": False,   # set by the runner: True only when the whole family was run (thorough tier)
        "exhaustive_scope": "V(P) is enumerated completely for every problem explored; the family of problems is complete in the thorough tier and a seeded, tag-stratified sample in the quick tier",
        "problems": len(res["problems"]),
        "tags": dict(collections.Counter(p["tag"] for p in res["problems"])),
        "valid_schedules_enumerated": n_v,
        "valid_schedules_required": n_must,
        "unspecified_skipped": n_v - n_must,
        "pins_checked": sum(r["checked_pins"] for r in rs),
        "soundness_queries": len(rs),
        "witnesses_examined": sum(len(r["witnesses"]) for r in rs),
        "indicator_identities_checked": sum(r["checked_inds"] for r in rs),
        "buffer_identities_checked": sum(r["checked_bufs"] for r in rs),
        "public_api_replays": sum(r["replayed"] for r in rs),
        "inconclusive": sum(r["inconclusive"] for r in rs),
        "outside_window_skipped": sum(r["outside_window"] for r in rs),
        "tlc_enumeration": res["stats"]["enum"],
        "tlc_trace_validation": res["stats"]["trace"],
        "timing_s": {k: res["stats"][k] for k in ("t_enum", "t_impl", "t_trace")},
    }
    if extra:
        cov.update(extra)
    return cov


def spec_audit(res, cfg, limit=None):
    """Self-audit of the specification: the same family enumerated under another configuration of Timeline
    (declarative calendars, free interleaving) must give exactly the same valid sets.  A difference is a
    defect of the specification, i.e. a machinery failure (exit 2), never a verdict on the library."""
    ps = res["problems"][:limit] if limit else res["problems"]
    V2, st = tlc.enumerate_V(ps, cfg=cfg)
    diff = [p["id"] for p in ps if set(V2[p["id"]]) != set(res["V"][p["id"]])]
    if diff:
        raise RuntimeError(f"specification self-audit failed under {cfg}: valid sets differ for problems {diff[:10]}")
    return {"config": cfg, "problems": len(ps), **st}


def corruption_selftest(res, limit=10):
    """Demonstrates the binding of the trace specification: accepted implementation traces are corrupted in
    one field (a start shifted, an end event dropped, an assignment moved, a buffer level or an indicator value
    changed) and TLC must reject every corrupted trace.  An accepted corruption is a machinery failure."""
    import copy
    good = []
    for r in res["results"]:
        for t in r["traces"]:
            if t.get("verdict", {}).get("accept") and t["trace"]["instants"]:
                good.append(t["trace"])
    good = good[:: max(1, len(good) // limit)][:limit]
    bad, kinds = [], []
    for tr in good:
        # shift the first start one instant later
        c = copy.deepcopy(tr)
        inst = c["instants"]
        moved = False
        for k, i in enumerate(inst):
            # (only a fixed-duration task: moving its start while its end stays is certainly not a behaviour)
            starts = [e for e in i["ev"] if e["k"] == "start"
                      and res["problems"][tr["pid"] - 1]["tasks"][e["task"] - 1]["kind"] == "F"]
            if starts:
                e = starts[0]
                i["ev"].remove(e)
                tgt = [j for j in inst if j["t"] == i["t"] + 1]
                if tgt:
                    tgt[0]["ev"].append(e)
                else:
                    inst.append({"t": i["t"] + 1, "ev": [e]})
                c["instants"] = sorted([j for j in inst if j["ev"]], key=lambda j: j["t"])
                moved = True
                break
        if moved:
            bad.append(c)
            kinds.append("start-shifted")
        # drop an end event
        c = copy.deepcopy(tr)
        for i in c["instants"]:
            ends = [e for e in i["ev"] if e["k"] == "end"]
            if ends:
                i["ev"].remove(ends[0])
                c["instants"] = [j for j in c["instants"] if j["ev"]]
                bad.append(c)
                kinds.append("end-dropped")
                break
        # move a reported assignment
        c = copy.deepcopy(tr)
        for u, iv in enumerate(c["fin"]["uses"]):
            if iv:
                c["fin"]["uses"][u] = [iv[0] + 1, iv[1] + 1]
                bad.append(c)
                kinds.append("assignment-moved")
                break
        # change a reported buffer level / indicator value
        c = copy.deepcopy(tr)
        if any(c["fin"]["hist"]) and any(len(h) for h in c["fin"]["hist"]):
            for h in c["fin"]["hist"]:
                if h:
                    h[-1][1] += 1
                    break
            bad.append(c)
            kinds.append("buffer-level-changed")
        c = copy.deepcopy(tr)
        prob = res["problems"][tr["pid"] - 1]
        for i, v in enumerate(c["fin"]["ind"]):
            # (an indicator that may be in a corner the documentation leaves open is not judged by R_indicator:
            # only indicators that are specified for every schedule of the problem are corrupted)
            ind = prob["inds"][i]
            open_corner_possible = (any(t["optional"] for t in prob["tasks"]) or ind["cls"] == "IndicatorResourceIdle"
                                    or ind.get("res", {}).get("t") == "cumul"
                                    or (ind["cls"] == "IndicatorTardiness" and any(t["priority"] != 1 for t in prob["tasks"])))
            if v and not open_corner_possible:
                c["fin"]["ind"][i] = [v[0] + 7]
                bad.append(c)
                kinds.append("indicator-changed")
                break
    if not bad:
        return {"corrupted_traces": 0}
    verdicts, st = tlc.validate_traces(res["problems"], bad)
    accepted = [k for k, v in zip(kinds, verdicts) if v["accept"]]
    if accepted:
        raise RuntimeError(f"binding self-test failed: corrupted traces were accepted by TimelineTrace: {accepted}")
    out = {"corrupted_traces": len(bad), "all_rejected": True, "by_kind": dict(collections.Counter(kinds)),
           "a_rejection": {"kind": kinds[0], "why": verdicts[0]["why"]}, "tlc": st}
    return out


ORDER_VARIANTS = {
    # the same model declared in another order / in two steps: V(P) is unchanged, the verdicts must be too
    "early-solver": {"early_solver": True},    # SchedulingSolver(problem) first, the model afterwards, then solve()
    "two-phase": {"two_phase": True},          # declare a part, solve it, complete the model, NEW solver
    "interleaved": {"interleave": True},       # a (vacuous) resource constraint declared between two requirements
    "second-solver": {"resolve": True},        # the complete model was already solved once by another solver object
    "later-problem": {"later_problem": True},  # another problem is created before this one gets its solver
    "other-solved-midway": {"other_midway": True},   # an earlier problem is solved in the middle of this one's declaration
}


def order_variants(problems, rng, per_variant):
    """Copies of a stratified sample of the problems, built in another declaration order."""
    out = []
    for name, bk in ORDER_VARIANTS.items():
        cands = [p for p in problems if not p.get("_opts") and (name != "interleaved" or p["user_horizon"])]
        if name == "two-phase":
            cands = [p for p in cands if len({r["task"] for r in p["reqs"]} | {o["task"] for bf in p["buffers"] for o in bf["ops"]}) >= 2]
        if name == "interleaved":
            cands = [p for p in cands if sum(1 for r in p["reqs"] if r["type"] == "worker") >= 2]
        chosen = F_tasks.sample(rng, cands, per_variant) if len(cands) > per_variant else cands
        if name == "second-solver":
            # a second solver on a MULTI-objective problem re-creates the equivalent weighted objective: always part of it
            multi = [p for p in cands if len(p["objs"]) >= 2 and p not in chosen]
            chosen = chosen + (rng.sample(multi, 4) if len(multi) > 4 else multi)
        for p in chosen:
            q = json.loads(json.dumps(p))
            q["variant"] = name
            q["_opts"] = {"build_kw": dict(bk)}
            out.append(q)
    return out


def encoding_runner(prop, family, directions, opts=None, audits=(), large=frozenset(), mixed=()):
    def run(tier, seed, replay=None, procs=16):
        if replay:
            problems = [dict(replay["problem"], id=1)]
        else:
            problems = family(tier, seed)
            if mixed:
                # cross-feature problems (families/mixed.py): constraint classes of several properties in one
                # problem, at least one of this property's own group, V(P) still enumerated completely
                from families import mixed as F_mixed
                extra = []
                for focus in mixed:
                    extra += F_mixed.fam_mixed(tier, seed, focus, n=None if len(mixed) == 1 else (80 if tier == "thorough" else 12))
                problems = problems + extra
            problems = problems + order_variants(problems, random.Random(f"order-{prop}-{seed}"), 60 if tier == "thorough" else 14)
            problems = F_tasks.number([json.loads(json.dumps(q)) for q in problems])
        o = dict(opts or {})
        o["seed"] = seed
        if tier == "thorough":
            o.setdefault("replay_per_problem", 3)
        res = engine.run_family(problems, o, procs=procs)
        viol = collect(prop, res, directions)
        cov = coverage_of(res)
        cov["exhaustive"] = (tier == "thorough")
        if not replay:
            cov["binding_selftest"] = corruption_selftest(res)
            # vacuity audit: how often TLC took each action of Timeline on (a sample of) this family
            smp = problems if len(problems) <= 400 else F_tasks.sample(random.Random(seed), problems, 400)
            acts, st_cov = tlc.timeline_action_coverage(F_tasks.number([json.loads(json.dumps(q)) for q in smp]))
            cov["tlc_action_coverage"] = {"problems": len(smp), "states_produced_per_action": acts,
                                          "never_taken": sorted(a for a, n in acts.items() if n == 0)}
            core = [a for a in ("Init", "StartSome", "EndSome", "Tick", "Finish") if not acts.get(a)]
            if core:
                raise RuntimeError(f"vacuous family: TLC never took the action(s) {core}")
        if not replay and large:
            # beyond the exhaustive bounds: TLC simulation samples V(P) of larger random problems
            from families import large as F_large
            lp = F_large.fam_large(tier, seed)
            if mixed:
                from families import mixed as F_mixed2
                for focus in mixed:
                    lp = lp + F_mixed2.fam_mixed_large(tier, seed, focus, n=None if len(mixed) == 1 else (8 if tier == "thorough" else 3))
                lp = F_tasks.number([json.loads(json.dumps(q)) for q in lp])
            res_l = engine.run_large(lp, {"seed": seed}, procs=procs, num=3000 if tier == "thorough" else 1200)
            viol += collect(prop, res_l, directions & large)
            cl = coverage_of(res_l)
            cov["larger_bounds_by_simulation"] = {k: cl[k] for k in ("problems", "valid_schedules_enumerated", "pins_checked",
                                                                       "public_api_replays", "traces_validated_against_impl", "inconclusive")}
            cov["larger_bounds_by_simulation"]["tlc_simulation"] = res_l["stats"]["enum"]
            cov["states"] += cl["states"]
            cov["transitions"] += cl["transitions"]
            cov["traces_validated_against_impl"] += cl["traces_validated_against_impl"]
        if not replay:
            for cfg, limit in audits:
                a = spec_audit(res, cfg, limit if tier != "thorough" else (None if limit is None else limit * 4))
                cov.setdefault("spec_self_audits", []).append(a)
                cov["states"] += a["distinct"]
                cov["transitions"] += a["generated"]
        return {"violations": viol, "coverage": cov, "assumptions": ASSUME_ENC,
                "summary": f"{len(problems)} problems, |V|={cov['valid_schedules_enumerated']}, "
                           f"{cov['traces_validated_against_impl']} traces, TLC states={cov['states']}"}
    return run


def union_family(fams, quick_each):
    def fam(tier, seed):
        rng = random.Random(seed + 5)
        out = []
        for f in fams:
            ps = f("thorough" if tier == "thorough" else "quick", seed)
            if tier != "thorough" and len(ps) > quick_each:
                ps = F_tasks.sample(rng, ps, quick_each)
            out.extend(ps)
        return F_tasks.number([json.loads(json.dumps(p)) for p in out])
    return fam


RUNNERS = {}


def _objective_pool(tier, seed):
    """Problems that carry one or two objectives (a problem with valid schedules is solvable whatever it optimises)."""
    from families import solver as F_solver
    return F_tasks.number(F_solver.pool(["makespan", "flowtime", "two_min", "two_max", "two_min_w0", "max_bounded"],
                                        shapes=("plain", "optional", "select", "variable", "buffer")))


def register():
    from families import tasks, resources, optional, buffers, logic, indicators
    S, Cm = "sound", "complete"
    RUNNERS["C01"] = encoding_runner("C01", tasks.fam_C01, {S}, mixed=("basic",))
    RUNNERS["C02"] = encoding_runner("C02", tasks.fam_C02, {S}, audits=[("MC_Timeline_free.cfg", 40)], large=frozenset({S}),
                                     mixed=("basic",))
    RUNNERS["C03"] = encoding_runner("C03", tasks.fam_C03, {S}, mixed=("task",), large=frozenset({S}))
    RUNNERS["C04"] = encoding_runner("C04", resources.fam_C04, {S}, audits=[("MC_Timeline_decl.cfg", None)], mixed=("resource",),
                                     large=frozenset({S}))
    RUNNERS["C06"] = encoding_runner("C06", optional.fam_C06, {S, Cm, "buffers", "indicators"}, mixed=("optional",),
                                     large=frozenset({S, Cm}))
    RUNNERS["C08"] = encoding_runner("C08", indicators.fam_C08, {S, "indicators"}, mixed=("indicator",), large=frozenset({S}))
    # "complete": the property also says what MAY happen (simultaneous accesses to a concurrent buffer, the net level of
    # an instant judged against the bounds), so a valid buffer schedule that is refused is a C09 violation too
    RUNNERS["C09"] = encoding_runner("C09", buffers.fam_C09, {S, Cm, "buffers"}, audits=[("MC_Timeline_free.cfg", 40)], mixed=("buffer",),
                                     large=frozenset({S}))
    RUNNERS["C10"] = encoding_runner("C10", logic.fam_C10, {S, Cm}, mixed=("logic",), large=frozenset({S, Cm}))
    RUNNERS["C05"] = encoding_runner(
        "C05", union_family([tasks.fam_C01, tasks.fam_C02, tasks.fam_C03, resources.fam_C04,
                             optional.fam_C06, buffers.fam_C09, logic.fam_C10, _objective_pool], 150),
        {Cm}, {"soundness": False, "replay_per_problem": 2}, large=frozenset({Cm}),
        mixed=("basic", "task", "resource", "optional", "buffer", "logic"))


register()

import solver_props  # noqa: E402
RUNNERS.update(solver_props.RUNNERS)

import report_props  # noqa: E402
RUNNERS.update(report_props.RUNNERS)

import builder_props  # noqa: E402
RUNNERS["C18"] = builder_props.run_C18
RUNNERS["C14"] = builder_props.run_C14
