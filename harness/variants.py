"""Renamed / re-ordered twins of a neutral problem description (C14)."""
from __future__ import annotations

import copy

LOGIC = {"Not", "And", "Or", "Xor", "Implies", "IfThenElse", "ForceApplyNOptionalConstraints"}


def can_permute_cons(p):
    return not any(c["cls"] in LOGIC or c.get("before_g") or c.get("after_g") for c in p["cons"])


def _map_expr(x, tm):
    if isinstance(x, dict):
        y = {}
        for k, v in x.items():
            if k == "task" and isinstance(v, int):
                y[k] = tm[v]
            else:
                y[k] = _map_expr(v, tm)
        return y
    if isinstance(x, list):
        return [_map_expr(v, tm) for v in x]
    return x


def permute(p, order):
    """order = [task order, plain-worker order, constraint order, indicator order]; each a list of the
    1-based OLD indices in their NEW declaration order.  Cumulative workers and their unit workers keep
    their relative place after the plain workers' permutation is applied among plain workers only."""
    q = copy.deepcopy(p)
    t_order, w_order, c_order, i_order = order
    tm = {old: new + 1 for new, old in enumerate(t_order)}
    plain = [i + 1 for i, w in enumerate(p["workers"]) if w["cumul"] == 0]
    assert sorted(w_order) == list(range(1, len(plain) + 1))
    # new list of workers: plain ones permuted among the plain slots
    new_workers_old_idx = []
    it = iter([plain[k - 1] for k in w_order])
    for i, w in enumerate(p["workers"]):
        new_workers_old_idx.append(next(it) if w["cumul"] == 0 else i + 1)
    wm = {old: new + 1 for new, old in enumerate(new_workers_old_idx)}
    cm = {old: new + 1 for new, old in enumerate(c_order)}
    im = {old: new + 1 for new, old in enumerate(i_order)}
    q["tasks"] = [copy.deepcopy(p["tasks"][o - 1]) for o in t_order]
    q["workers"] = [copy.deepcopy(p["workers"][o - 1]) for o in new_workers_old_idx]
    for cu in q["cumuls"]:
        cu["units"] = [wm[u] for u in cu["units"]]
    for s in q["selects"]:
        s["workers"] = [wm[w] for w in s["workers"]]
    for r in q["reqs"]:
        r["task"] = tm[r["task"]]
        if r["type"] == "worker":
            r["ref"] = wm[r["ref"]]
    for u in q["uses"]:
        u["task"] = tm[u["task"]]
        u["worker"] = wm[u["worker"]]

    def res(r):
        return {"t": r["t"], "i": wm[r["i"]] if r["t"] == "worker" else r["i"]}

    def con(c):
        c = copy.deepcopy(c)
        for k in ("task", "before", "after", "t1", "t2"):
            if k in c:
                c[k] = tm[c[k]]
        if "tasks" in c:
            c["tasks"] = [tm[t] for t in c["tasks"]]
        if "res" in c:
            c["res"] = res(c["res"])
        for k in ("cond", "expr"):
            if k in c:
                c[k] = _map_expr(c[k], tm)
        for k in ("x", "y"):
            if k in c:
                c[k] = op(c[k])
        for k in ("xs", "ys"):
            if k in c:
                c[k] = [op(o) for o in c[k]]
        if "cons" in c:
            c["cons"] = [cm[i] for i in c["cons"]]
        for k in ("before_g", "after_g"):
            if c.get(k):
                c[k] = cm[c[k]]
        if "ind" in c:
            c["ind"] = im[c["ind"]]
        return c

    def op(o):
        return {"t": "con", "i": cm[o["i"]]} if o["t"] == "con" else {"t": "expr", "e": _map_expr(o["e"], tm)}

    q["cons"] = [con(p["cons"][o - 1]) for o in c_order]
    for bf in q["buffers"]:
        for o in bf["ops"]:
            o["task"] = tm[o["task"]]

    def ind(x):
        x = copy.deepcopy(x)
        if "tasks" in x:
            x["tasks"] = [tm[t] for t in x["tasks"]]
        if "res" in x:
            x["res"] = res(x["res"])
        if "ress" in x:
            x["ress"] = [res(r) for r in x["ress"]]
        if "expr" in x:
            x["expr"] = _map_expr(x["expr"], tm)
        return x

    q["inds"] = [ind(p["inds"][o - 1]) for o in i_order]
    for o in q["objs"]:
        if o.get("ind"):
            o["ind"] = im[o["ind"]]
        if "res" in o:
            o["res"] = res(o["res"])
        if "ress" in o:
            o["ress"] = [res(r) for r in o["ress"]]
    maps = {"t": tm, "w": wm, "c": cm, "i": im}
    return q, maps


def map_key(p, key, maps, q):
    """The abstract-schedule key of problem p mapped to the permuted problem q."""
    sched, times, uses, ap, lv0 = key
    nt = len(sched)
    s2, t2 = [None] * nt, [None] * nt
    for old in range(nt):
        new = maps["t"][old + 1] - 1
        s2[new], t2[new] = sched[old], times[old]
    # uses are regenerated in the same order (requirements are not permuted); only their content moved
    ap2 = [None] * len(ap)
    for old in range(len(ap)):
        ap2[maps["c"][old + 1] - 1] = ap[old]
    return (tuple(s2), tuple(t2), uses, tuple(ap2), lv0)


SCHEMES = {
    # a worker / another cumulative worker whose name STARTS WITH the name of a cumulative worker (M1 / M10 / M1_helper)
    "prefix_of_cumulative": lambda kind, i: {"task": "job" + str(i), "worker": ["M1_helper", "M10", "M1x"][(i - 1) % 3] + ("" if i <= 3 else str(i)),
                                             "cumul": "M1" + "0" * (i - 1), "select": "S" + str(i), "con": "c" + str(i),
                                             "buffer": "b" + str(i), "ind": "i" + str(i)}[kind],
    # names that read as numbers
    "number_like": lambda kind, i: {"task": ["12", "1_2", "007", "1e3", "3.5"][(i - 1) % 5] + ("" if i <= 5 else "_" + str(i)),
                                    "worker": ["7", "08", "1_0"][(i - 1) % 3] + ("" if i <= 3 else "_" + str(i)),
                                    "cumul": "9" + str(i), "select": "5" + str(i), "con": "4" + str(i),
                                    "buffer": "6" + str(i), "ind": "3" + str(i)}[kind],
    # names that are concatenations of other names with the separators the library itself uses ("_"): unique per kind and
    # across kinds, yet equal to what a naive "<resource>_<task>" / "<task>_<resource>" composition would produce
    "concatenations": lambda kind, i: {"task": ["A", "W_A", "B", "A_W"][(i - 1) % 4] + ("" if i <= 4 else str(i)),
                                       "worker": ["W", "V_A", "V"][(i - 1) % 3] + ("" if i <= 3 else str(i)),
                                       "cumul": "W_B_P" + str(i), "select": "A_S" + str(i), "con": "A_W_c" + str(i),
                                       "buffer": "A_b" + str(i), "ind": "A_i" + str(i)}[kind],
    "plain": lambda kind, i: {"task": "Task", "worker": "Res", "cumul": "Pool", "select": "Sel", "con": "Rule", "buffer": "Stock", "ind": "Ind"}[kind] + str(i),
    "prefixes": lambda kind, i: {"task": "T", "worker": "T", "cumul": "P", "select": "T", "con": "T", "buffer": "T", "ind": "T"}[kind] + "1" * i,
    "suffix_like_generated": lambda kind, i: {"task": ["x", "x_start", "x_end", "x_duration"][(i - 1) % 4],
                                              "worker": ["x_busy", "x", "x_maybe_busy", "busy"][(i - 1) % 4],
                                              "cumul": "x_scheduled" + str(i), "select": "Selected_x" + str(i), "con": "x_applied" + str(i),
                                              "buffer": "x_level" + str(i), "ind": "Indicator_x" + str(i)}[kind],
    "spaces_unicode": lambda kind, i: {"task": "Tâche n°", "worker": "worker #", "cumul": "pool / ", "select": "sél ", "con": "règle ", "buffer": "stock ", "ind": "ind "}[kind] + str(i),
    "cumulative_lookalike": lambda kind, i: {"task": "job", "worker": "M_CumulativeWorker_", "cumul": "Pool", "select": "S", "con": "c", "buffer": "b", "ind": "i"}[kind] + str(i),
    "busy_collision": lambda kind, i: {"task": ["A_busy_B", "B", "C"][(i - 1) % 3] + ("" if i <= 3 else str(i)),
                                       "worker": ["W", "W_busy_A", "V"][(i - 1) % 3] + ("" if i <= 3 else str(i)),
                                       "cumul": "P" + str(i), "select": "S" + str(i), "con": "c" + str(i), "buffer": "b" + str(i), "ind": "i" + str(i)}[kind],
}


def rename(p, scheme):
    f = SCHEMES[scheme]
    q = copy.deepcopy(p)
    for i, t in enumerate(q["tasks"]):
        t["name"] = f("task", i + 1)
    k = 0
    for i, cu in enumerate(q["cumuls"]):
        cu["name"] = f("cumul", i + 1)
    for i, w in enumerate(q["workers"]):
        if w["cumul"] == 0:
            k += 1
            w["name"] = f("worker", k)
        else:
            cu = q["cumuls"][w["cumul"] - 1]
            w["name"] = f"{cu['name']}_CumulativeWorker_{cu['units'].index(i + 1) + 1}"
    for i, s in enumerate(q["selects"]):
        s["name"] = f("select", i + 1)
    for i, c in enumerate(q["cons"]):
        c["name"] = f("con", i + 1)
    n = 0
    for i, bf in enumerate(q["buffers"]):
        bf["name"] = f("buffer", i + 1)
        for o in bf["ops"]:
            n += 1
            o["name"] = f("con", 100 + n)
    for i, x in enumerate(q["inds"]):
        if x["cls"] == "IndicatorFromMathExpression":
            x["name"] = f("ind", i + 1)
    return q
