"""Seeded random problems beyond the exhaustive bounds (4-5 tasks, 2-3 workers, horizon 8-10)."""
from __future__ import annotations

import random

from problems import PB, number, res_worker, res_cumul


def fam_large(tier, seed, n=None):
    rng = random.Random(seed + 101)
    n = n or (40 if tier == "thorough" else 12)
    ps = []
    for k in range(n):
        H = rng.choice((8, 9, 10))
        b = PB(H, tag="large")
        nt = rng.choice((4, 5))
        ts = []
        for i in range(nt):
            kind = rng.choice(("F", "F", "V", "Z"))
            kw = {}
            if kind == "F":
                kw["dur"] = rng.choice((1, 2, 3))
            if kind == "V":
                kw["min"] = rng.choice((0, 1))
                kw["max"] = rng.choice((2, 3, None))
            ts.append(b.task("ABCDE"[i], kind, optional=rng.random() < 0.25,
                             release=rng.choice((None, None, 1, 2)), due=rng.choice((None, None, H - 1)), **kw))
        ws = [b.worker(f"W{i + 1}", prod=rng.choice((1, 2))) for i in range(rng.choice((2, 3)))]
        cu = b.cumul("M", 2) if rng.random() < 0.4 else None
        sel = b.select("S", ws[:2], n=1, kind=rng.choice(("exact", "min"))) if rng.random() < 0.5 else None
        used_sel = False
        for t in ts:
            r = rng.random()
            if r < 0.45:
                b.require(t, worker=rng.choice(ws))
            elif r < 0.6 and sel and not used_sel:
                b.require(t, select=sel)
                used_sel = True
            elif r < 0.8 and cu:
                b.require(t, cumul=cu)
        for _ in range(rng.choice((1, 2, 3))):
            c = rng.choice(("prec", "sync", "dont", "startafter", "endbefore", "unavail", "workload"))
            a, d = rng.sample(ts, 2)
            if c == "prec":
                b.con("TaskPrecedence", before=a, after=d, offset=rng.choice((0, 1)), kind=rng.choice(("lax", "strict", "tight")))
            elif c == "sync":
                b.con(rng.choice(("TasksStartSynced", "TasksEndSynced")), t1=a, t2=d)
            elif c == "dont":
                b.con("TasksDontOverlap", t1=a, t2=d)
            elif c == "startafter":
                b.con("TaskStartAfter", task=a, value=rng.choice((1, 2, 3)), kind="lax")
            elif c == "endbefore":
                b.con("TaskEndBefore", task=a, value=rng.choice((H - 2, H - 1)), kind="lax")
            else:
                # resource constraints need an assigned plain worker
                assigned = sorted({u["worker"] for u in b.p["uses"] if b.p["workers"][u["worker"] - 1]["cumul"] == 0
                                   and b.p["reqs"][u["req"] - 1]["type"] == "worker"})
                if not assigned:
                    continue
                w = rng.choice(assigned)
                if c == "unavail":
                    lo = rng.choice((1, 2, 3))
                    b.con("ResourceUnavailable", res=res_worker(w), intervals=[[lo, lo + 2]])
                else:
                    b.con("WorkLoad", res=res_worker(w), intervals=[[0, 4, rng.choice((1, 2, 3))]], kind="max")
        if rng.random() < 0.3:
            bf = b.buffer("Bf", concurrent=rng.random() < 0.5, initial=2, lower=0)
            x, y = rng.sample(ts, 2)
            b.unload(x, bf, 1)
            b.load(y, bf, 1)
        ps.append(b.done())
    return number(ps)
