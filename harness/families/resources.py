"""Problem family for C04 (resource constraints)."""
from __future__ import annotations

import itertools
import random

from problems import PB, number, res_worker, res_cumul
from families.tasks import sample


def _two_on_worker(b, k1, k2, opt2=False, sel=False, cumul=False, window=None):
    """Two (or three) tasks using one resource; returns (tasks, resource ref).
    window: (due, deadline, release) given to the FIRST task (its own time window)."""
    def mk(nm, k, optional=False):
        t = mk0(nm, k, optional)
        if window and nm == "A":
            tk = b.p["tasks"][t - 1]
            due, dl, rel = window
            tk["due"] = [] if due is None else [due]
            tk["deadline"] = dl
            tk["release"] = [] if rel is None else [rel]
        return t

    def mk0(nm, k, optional=False):
        if k == "F1":
            return b.task(nm, "F", dur=1, optional=optional)
        if k == "F2":
            return b.task(nm, "F", dur=2, optional=optional)
        if k == "Z":
            return b.task(nm, "Z", optional=optional)
        if k == "V":
            return b.task(nm, "V", min=1, max=3, optional=optional)
        if k == "V0":
            return b.task(nm, "V", min=0, max=2, optional=optional)
        if k == "F3":
            return b.task(nm, "F", dur=3, optional=optional)
    a, c = mk("A", k1), mk("B", k2, opt2)
    if cumul:
        cu = b.cumul("M", 2)
        b.require(a, cumul=cu)
        b.require(c, cumul=cu)
        return (a, c), res_cumul(cu)
    w = b.worker("W")
    if sel:
        w2 = b.worker("W2")
        s = b.select("S", [w, w2])
        b.require(a, select=s)
        b.require(c, worker=w)
    else:
        b.require(a, worker=w)
        b.require(c, worker=w)
    return (a, c), res_worker(w)


def fam_C04(tier, seed):
    rng = random.Random(seed + 4)
    full = tier == "thorough"
    ps = []
    kinds = [("F2", "F1"), ("V", "F1"), ("F1", "Z"), ("V0", "F2")]
    modes = [dict(), dict(opt2=True), dict(sel=True), dict(cumul=True)]

    # ResourceUnavailable
    for (k1, k2), md, ivs in itertools.product(kinds, modes, ([[1, 2]], [[0, 1], [3, 4]], [[1, 3]], [[0, 4]], [[4, 6]])):
        b = PB(5, tag="ResourceUnavailable")
        _, res = _two_on_worker(b, k1, k2, **md)
        b.con("ResourceUnavailable", res=res, intervals=ivs)
        ps.append(b.done())
    # interval lists that nest / overlap / touch / come unsorted
    for (k1, k2), md, ivs in itertools.product([("F2", "F1"), ("V", "F1")], [dict(), dict(sel=True), dict(cumul=True)],
                                               ([[0, 4], [1, 2]], [[1, 5], [2, 3]], [[0, 2], [1, 3]], [[2, 3], [0, 1]], [[1, 2], [2, 3]],
                                                [[0, 5], [4, 5]])):
        b = PB(6, tag="ResourceUnavailable-nested")
        _, res = _two_on_worker(b, k1, k2, **md)
        b.con("ResourceUnavailable", res=res, intervals=ivs)
        ps.append(b.done())
    for (k1, k2), ivs in itertools.product([("F2", "F1"), ("F3", "F1")], ([[0, 3], [1, 2]], [[0, 2], [1, 3]])):
        b = PB(7, tag="ResourcePeriodicallyUnavailable-nested")
        _, res = _two_on_worker(b, k1, k2)
        b.con("ResourcePeriodicallyUnavailable", res=res, intervals=ivs, period=4, start=0, offset=0, end=[])
        ps.append(b.done())
    # the first task has its own time window (a due date that is or is not a deadline, a release date): the
    # resource constraint counts / excludes it wherever it actually runs
    for (k1, k2), window, (ivs, kind) in itertools.product(
            [("F2", "F1"), ("V", "F1")], [(1, False, None), (2, False, None), (2, True, None), (None, True, 2), (2, False, 1)],
            [([[2, 4, 1]], "max"), ([[2, 4, 0]], "max"), ([[1, 3, 1]], "exact"), ([[0, 2, 1]], "min"), ([[3, 5, 1]], "max")]):
        b = PB(5, tag="WorkLoad+own-window")
        _, res = _two_on_worker(b, k1, k2, window=window)
        b.con("WorkLoad", res=res, intervals=ivs, kind=kind)
        ps.append(b.done())
    for (k1, k2), window, ivs in itertools.product(
            [("F2", "F1"), ("V", "F1")], [(1, False, None), (2, False, None), (None, True, 2)], ([[2, 3]], [[1, 3]], [[3, 5]])):
        b = PB(5, tag="ResourceUnavailable+own-window")
        _, res = _two_on_worker(b, k1, k2, window=window)
        b.con("ResourceUnavailable", res=res, intervals=ivs)
        ps.append(b.done())
    # WorkLoad
    for (k1, k2), md, (ivs, kind) in itertools.product(
            kinds, modes,
            [([[0, 2, 1]], "max"), ([[1, 3, 0]], "max"), ([[1, 3, 2]], "exact"), ([[0, 4, 3]], "min"),
             ([[0, 2, 1], [2, 4, 1]], "max"), ([[1, 2, 1]], "min"), ([[0, 2, 2]], "exact"), ([[1, 3, 1]], "exact"),
             # a bound that is slack for ONE worker (>= the interval length) still binds a cumulative worker
             ([[0, 2, 2]], "max"), ([[1, 3, 3]], "max")]):
        b = PB(4, tag="WorkLoad")
        _, res = _two_on_worker(b, k1, k2, **md)
        b.con("WorkLoad", res=res, intervals=ivs, kind=kind)
        ps.append(b.done())
        if md.get("cumul") and kind == "max" and ivs in ([[0, 2, 2]], [[1, 3, 3]]) and k1 in ("F2", "V"):
            ps[-1]["keep"] = True     # a bound that is slack for one worker still binds a cumulative worker
        if k1 == "V" and not md and ivs in ([[1, 2, 1]], [[1, 3, 2]]):
            ps[-1]["keep"] = True     # the variable task can span the whole interval (duration 3 over [1, 2) or [1, 3))
    # ResourcePeriodicallyUnavailable (horizon up to 8)
    for (k1, k2), md, (ivs, period, st, off, en) in itertools.product(
            [("F2", "F1"), ("V", "F1"), ("F1", "Z"), ("F3", "F1")], [dict(), dict(sel=True), dict(cumul=True)],
            [([[1, 2]], 3, 0, 0, None), ([[0, 1]], 3, 0, 0, None), ([[2, 3]], 4, 0, 0, None),
             ([[1, 2]], 3, 0, 1, None), ([[1, 2]], 3, 3, 0, None), ([[1, 2]], 3, 0, 0, 5),
             ([[1, 3]], 4, 2, 0, 7), ([[0, 1], [2, 3]], 4, 0, 0, None), ([[1, 3]], 4, 0, 0, None), ([[0, 2]], 3, 0, 1, None)]):
        b = PB(7, tag="ResourcePeriodicallyUnavailable")
        _, res = _two_on_worker(b, k1, k2, **md)
        b.con("ResourcePeriodicallyUnavailable", res=res, intervals=ivs, period=period, start=st, offset=off,
              end=[] if en is None else [en])
        ps.append(b.done())
    # ResourceInterrupted
    for (k1, k2), md, ivs in itertools.product([("V", "F1"), ("F2", "F1"), ("V", "V0"), ("V0", "Z")],
                                               [dict(), dict(cumul=True)],
                                               ([[1, 2]], [[2, 4]], [[0, 1], [3, 4]], [[1, 3]])):
        b = PB(6, tag="ResourceInterrupted")
        _, res = _two_on_worker(b, k1, k2, **md)
        b.con("ResourceInterrupted", res=res, intervals=ivs)
        ps.append(b.done())
    # ResourcePeriodicallyInterrupted
    for (k1, k2), md, (ivs, period, st, off, en) in itertools.product(
            [("V", "F1"), ("F2", "F1"), ("F3", "F1")], [dict(), dict(cumul=True), dict(sel=True), dict(opt2=True)],
            [([[1, 2]], 3, 0, 0, None), ([[2, 3]], 4, 0, 0, None), ([[1, 2]], 3, 0, 1, None), ([[1, 2]], 5, 0, 0, None), ([[1, 3]], 4, 0, 0, None),
             ([[1, 2]], 3, 3, 0, None), ([[1, 2]], 3, 0, 0, 5)]):
        b = PB(7, tag="ResourcePeriodicallyInterrupted")
        _, res = _two_on_worker(b, k1, k2, **md)
        b.con("ResourcePeriodicallyInterrupted", res=res, intervals=ivs, period=period, start=st, offset=off,
              end=[] if en is None else [en])
        ps.append(b.done())
    # TWO interruption constraints on one resource (open finding F9: their overlaps are not combined)
    for (k1, k2), second in itertools.product([("V", "F1"), ("V", "V0")],
                                              [("ResourceInterrupted", dict(intervals=[[2, 3]])),
                                               ("ResourceInterrupted", dict(intervals=[[3, 4]])),
                                               ("ResourcePeriodicallyInterrupted", dict(intervals=[[2, 3]], period=4, start=0, offset=0, end=[]))]):
        b = PB(6, tag="two-interruption-constraints")
        _, res = _two_on_worker(b, k1, k2)
        b.con("ResourceInterrupted", res=res, intervals=[[1, 2]])
        b.con(second[0], res=res, **second[1])
        ps.append(b.done())
    # ResourceNonDelay / ResourceTasksDistance on a plain worker (2 and 3 tasks)
    for ks, op in itertools.product([("F2", "F1"), ("F1", "F1", "F1"), ("V", "F1"), ("F1", "F2", "V")], [(), (1,)]):
        def mk(b):
            ts = []
            for i, k in enumerate(ks):
                nm = "ABC"[i]
                if k == "V":
                    ts.append(b.task(nm, "V", min=1, max=2, optional=i in op))
                else:
                    ts.append(b.task(nm, "F", dur=int(k[1]), optional=i in op))
            w = b.worker("W")
            for t in ts:
                b.require(t, worker=w)
            return res_worker(w)
        b = PB(5, tag="ResourceNonDelay")
        r = mk(b)
        b.con("ResourceNonDelay", res=r)
        ps.append(b.done())
        for dist, mode, ivs in itertools.product((0, 1, 2), ("exact", "min", "max"), (None, [[0, 3]], [[1, 4]])):
            b = PB(5, tag="ResourceTasksDistance")
            r = mk(b)
            b.con("ResourceTasksDistance", res=r, distance=dist, mode=mode, has_intervals=ivs is not None,
                  intervals=ivs or [])
            ps.append(b.done())
    # NonDelay / distance through a selection
    for cls in ("ResourceNonDelay", "ResourceTasksDistance"):
        b = PB(5, tag=cls + "+select")
        a = b.task("A", "F", dur=2)
        c = b.task("B", "F", dur=1)
        d = b.task("C", "F", dur=1)
        w1, w2 = b.worker("W1"), b.worker("W2")
        s = b.select("S", [w1, w2])
        b.require(a, select=s)
        b.require(c, worker=w1)
        b.require(d, worker=w1)
        if cls == "ResourceNonDelay":
            b.con(cls, res=res_worker(w1))
        else:
            b.con(cls, res=res_worker(w1), distance=1, mode="min", has_intervals=False, intervals=[])
        ps.append(b.done())
    # SameWorkers / DistinctWorkers
    for cls, nw, (n1, k1), (n2, k2) in itertools.product(("SameWorkers", "DistinctWorkers"), (2, 3),
                                                         [(1, "exact"), (1, "min"), (2, "exact")],
                                                         [(1, "exact"), (2, "max")]):
        b = PB(3, tag=cls)
        a = b.task("A", "F", dur=1)
        c = b.task("B", "F", dur=2)
        ws = [b.worker(f"W{i + 1}") for i in range(nw)]
        s1 = b.select("S1", ws, n=n1, kind=k1)
        s2 = b.select("S2", ws, n=n2, kind=k2)
        r1 = b.require(a, select=s1)
        r2 = b.require(c, select=s2)
        b.con(cls, r1=r1, r2=r2)
        ps.append(b.done())
    for cls in ("SameWorkers", "DistinctWorkers"):
        # partially overlapping lists
        b = PB(3, tag=cls + "-partial")
        a = b.task("A", "F", dur=1)
        c = b.task("B", "F", dur=2)
        w1, w2, w3 = b.worker("W1"), b.worker("W2"), b.worker("W3")
        s1 = b.select("S1", [w1, w2])
        s2 = b.select("S2", [w2, w3])
        r1 = b.require(a, select=s1)
        r2 = b.require(c, select=s2)
        b.con(cls, r1=r1, r2=r2)
        ps.append(b.done())
    if not full:
        ps = sample(rng, ps, 330)
    return number(ps)
