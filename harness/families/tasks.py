"""Problem families for C01 (task timing), C02 (resources) and C03 (task constraints)."""
from __future__ import annotations

import itertools
import random

from problems import PB, number, res_worker, res_cumul, cmp, start, end, const, b_sched  # noqa: F401


def task_shapes(full=True):
    """(kind, kwargs) for one task."""
    out = [("F", dict(dur=d)) for d in ((1, 2, 3) if full else (1, 2))]
    out.append(("Z", {}))
    mins = (0, 1, 2) if full else (0, 1)
    maxs = (None, 1, 3) if full else (None, 2)
    alls = (None, [1, 3], [2]) if full else (None, [1, 3])
    for mn, mx, al in itertools.product(mins, maxs, alls):
        if mx is not None and mx < mn:
            continue  # not well-formed in the sense of C18's statement: unspecified
        out.append(("V", dict(min=mn, max=mx, allowed=al)))
    return out


def sample(rng, xs, k):
    """Seeded sample; lists of problems are sampled per tag (round robin), so that every element class of a
    family is represented in the quick tier."""
    xs = list(xs)
    if k is None or k >= len(xs):
        return xs
    if xs and isinstance(xs[0], dict) and "tag" in xs[0]:
        groups = {}
        # problems marked "keep" hold a shape that calibration showed to matter (e.g. an assignment that spans a
        # whole WorkLoad interval): they are part of every quick sample
        out = [x for x in xs if x.get("keep")][:k]
        for x in xs:
            if not x.get("keep") or x not in out:
                groups.setdefault(x["tag"], []).append(x)
        for g in groups.values():
            rng.shuffle(g)
        while len(out) < k:
            progressed = False
            for tag in sorted(groups):
                if groups[tag] and len(out) < k:
                    out.append(groups[tag].pop())
                    progressed = True
            if not progressed:
                break
        return out
    return rng.sample(xs, k)


# ---------------------------------------------------------------------------------------
def fam_C01(tier, seed):
    rng = random.Random(seed)
    full = tier == "thorough"
    ps = []
    releases = (None, 0, 1, 2, -2)      # (a release date in the past binds nothing: the task still starts at 0 or later)
    dues = [(None, True), (0, True), (1, True), (3, True), (1, False), (3, False)]
    grid = []
    for (kind, kw), optional, rel, (due, dl), H, uh in itertools.product(
            task_shapes(True), (False, True), releases, dues, (3, 5) if full else (4,), (True, False)):
        grid.append((kind, kw, optional, rel, due, dl, H, uh))
    for (kind, kw, optional, rel, due, dl, H, uh) in sample(rng, grid, None if full else 260):
        b = PB(H, user_horizon=uh, tag="single")
        b.task("A", kind, optional=optional, release=rel, due=due, deadline=dl, **kw)
        ps.append(b.done())
    # longer lists of allowed durations (regular and irregular spacing), on a horizon that leaves room for each of them
    for al, optional, work in itertools.product(([1, 3, 4, 7], [2, 4, 5, 8], [1, 3, 5, 7], [1, 2, 4, 8], [2, 3, 5], [1, 4, 6, 7, 8]),
                                                (False, True), (0, 5)):
        b = PB(8, tag="allowed-durations")
        a = b.task("A", "V", min=0, allowed=al, optional=optional, work=work)
        if work:
            b.require(a, worker=b.worker("W"))
        ps.append(b.done())
    # contexts: the task under test next to other model elements
    ctx = []
    for (kind, kw), optional, rel, (due, dl), context in itertools.product(
            task_shapes(False), (False, True), (None, 1, -1), [(None, True), (3, True)],
            ("worker", "select", "cumul", "precedence", "buffer", "two", "workamount", "or-precedence", "not-precedence",
             "optional-precedence")):
        ctx.append((kind, kw, optional, rel, due, dl, context))
    for (kind, kw, optional, rel, due, dl, context) in sample(rng, ctx, None if full else 200):
        b = PB(4, tag="ctx-" + context)
        a = b.task("A", kind, optional=optional, release=rel, due=due, deadline=dl, **kw)
        if context == "worker":
            c = b.task("B", "F", dur=1)
            w = b.worker("W")
            b.require(a, worker=w)
            b.require(c, worker=w)
        elif context == "select":
            c = b.task("B", "F", dur=2)
            w1, w2 = b.worker("W1"), b.worker("W2")
            s = b.select("S", [w1, w2])
            b.require(a, select=s)
            b.require(c, worker=w1)
        elif context == "cumul":
            c = b.task("B", "F", dur=2)
            d = b.task("C", "F", dur=1)
            cu = b.cumul("M", 2)
            for t in (a, c, d):
                b.require(t, cumul=cu)
        elif context == "precedence":
            c = b.task("B", "F", dur=1)
            b.con("TaskPrecedence", before=a, after=c, offset=0, kind="lax")
        elif context in ("or-precedence", "not-precedence", "optional-precedence"):
            # a precedence that does not have to hold (operand of a connective / optional constraint): the task's own
            # window (start >= 0, end <= horizon) does not lean on it
            from problems import o_con
            c = b.task("B", "F", dur=2)
            if context == "or-precedence":
                b.con("Or", xs=[o_con(b.con("TaskPrecedence", before=a, after=c, offset=0, kind="lax")),
                                o_con(b.con("TaskPrecedence", before=c, after=a, offset=0, kind="lax"))])
            elif context == "not-precedence":
                b.con("Not", x=o_con(b.con("TaskPrecedence", before=a, after=c, offset=0, kind="lax")))
            else:
                b.con("TaskPrecedence", before=a, after=c, offset=1, kind="lax", optional=True)
        elif context == "buffer":
            c = b.task("B", "F", dur=1)
            bf = b.buffer("Bf", initial=1, lower=0)
            b.unload(a, bf, 1)
            b.load(c, bf, 1)
        elif context == "two":
            b.task("B", "V", min=0, max=2, optional=True)
            b.task("C", "Z")
        elif context == "workamount":
            w = b.worker("W", prod=2)
            b.require(a, worker=w)
            b.p["tasks"][a - 1]["work"] = 3
        ps.append(b.done())
    return number(ps)


# ---------------------------------------------------------------------------------------
def fam_C02(tier, seed):
    rng = random.Random(seed + 2)
    full = tier == "thorough"
    ps = []

    def two_tasks(b, k1="F", kw1=None, k2="F", kw2=None, opt2=False):
        a = b.task("A", k1, **(kw1 or dict(dur=2)))
        c = b.task("B", k2, optional=opt2, **(kw2 or dict(dur=1)))
        return a, c

    shapes = [("F", dict(dur=2)), ("F", dict(dur=1)), ("Z", {}), ("V", dict(min=0, max=2)), ("V", dict(min=1, max=3))]
    # one worker shared by two/three tasks
    for (k1, kw1), (k2, kw2), opt2 in itertools.product(shapes, shapes, (False, True)):
        b = PB(4, tag="shared-worker")
        a, c = two_tasks(b, k1, kw1, k2, kw2, opt2)
        w = b.worker("W")
        b.require(a, worker=w)
        b.require(c, worker=w)
        ps.append(b.done())
    # one worker, time windows of the two tasks: a due date that is NOT a deadline may be passed, so windows that
    # look disjoint (due of one <= release of the other) still leave the tasks competing for the worker
    for (k1, kw1), due, dl, rel, (k2, kw2) in itertools.product([("F", dict(dur=2)), ("V", dict(min=1, max=3)), ("F", dict(dur=3))],
                                                                (1, 2), (False, True), (1, 2, 3),
                                                                [("F", dict(dur=1)), ("F", dict(dur=2))]):
        b = PB(4, tag="shared-worker-windows")
        a = b.task("A", k1, due=due, deadline=dl, **kw1)
        c = b.task("B", k2, release=rel, **kw2)
        w = b.worker("W")
        b.require(a, worker=w)
        b.require(c, worker=w)
        ps.append(b.done())
    # two workers on one task, one shared
    for (k1, kw1), (k2, kw2) in itertools.product(shapes[:4], shapes[:3]):
        b = PB(4, tag="two-workers")
        a, c = two_tasks(b, k1, kw1, k2, kw2)
        w1, w2 = b.worker("W1"), b.worker("W2")
        b.require(a, worker=w1)
        b.require(a, worker=w2)
        b.require(c, worker=w2)
        ps.append(b.done())
    # delay_in / early_out
    for (k1, kw1), din, eout in itertools.product([("F", dict(dur=3)), ("F", dict(dur=2)), ("V", dict(min=2, max=3))],
                                                  (0, 1), (0, 1)):
        if din + eout == 0:
            continue
        b = PB(5, tag="shifted")
        a = b.task("A", k1, **kw1)
        c = b.task("B", "F", dur=2)
        w = b.worker("W")
        b.require(a, worker=w, delay_in=din, early_out=eout)
        b.require(c, worker=w)
        ps.append(b.done())
    # dynamic assignment
    for (k1, kw1), work, prod in itertools.product([("F", dict(dur=2)), ("V", dict(min=1, max=3)), ("V", dict(min=0, max=2))], (0, 1, 3), (0, 1, 2)):
        b = PB(4, tag="dynamic")
        a = b.task("A", k1, work=work, **kw1)
        c = b.task("B", "F", dur=1)
        w1, w2 = b.worker("W1", prod=1), b.worker("W2", prod=prod)
        b.require(a, worker=w1)
        b.require(a, worker=w2, dynamic=True)
        b.require(c, worker=w2)
        ps.append(b.done())
    # selections
    for nw, n, kind, (k1, kw1), opt in itertools.product((2, 3), (1, 2, 3), ("exact", "min", "max"),
                                                         [("F", dict(dur=2)), ("V", dict(min=1, max=2)), ("Z", {})],
                                                         (False, True)):
        if n > nw:
            continue
        b = PB(3 if nw == 3 else 4, tag="select")
        a = b.task("A", k1, optional=opt, **kw1)
        c = b.task("B", "F", dur=1)
        ws = [b.worker(f"W{i + 1}") for i in range(nw)]
        s = b.select("S", ws, n=n, kind=kind)
        b.require(a, select=s)
        b.require(c, worker=ws[0])
        ps.append(b.done())
    # two selections over overlapping lists
    for n1, k1, n2, k2 in itertools.product((1, 2), ("exact", "min", "max"), (1,), ("exact", "max")):
        b = PB(3, tag="two-selects")
        a = b.task("A", "F", dur=2)
        c = b.task("B", "F", dur=2)
        w1, w2, w3 = b.worker("W1"), b.worker("W2"), b.worker("W3")
        s1 = b.select("S1", [w1, w2], n=n1, kind=k1)
        s2 = b.select("S2", [w2, w3], n=n2, kind=k2)
        b.require(a, select=s1)
        b.require(c, select=s2)
        ps.append(b.done())
    # cumulative workers
    for size, ntasks, (k1, kw1), opt in itertools.product((2, 3), (2, 3), [("F", dict(dur=2)), ("V", dict(min=1, max=2)), ("Z", {})],
                                                          (False, True)):
        if size == 3 and ntasks == 2:
            continue
        b = PB(3 if ntasks == 3 else 4, tag="cumulative")
        ts = [b.task("A", k1, optional=opt, **kw1)]
        ts += [b.task(n, "F", dur=2 if i == 0 else 1) for i, n in enumerate(["B", "C"][:ntasks - 1])]
        cu = b.cumul("M", size)
        for t in ts:
            b.require(t, cumul=cu)
        ps.append(b.done())
    # a cumulative worker listed as a member of a selection (picking it takes one of its units)
    for ntasks, H in ((3, 2), (4, 2), (3, 4)):
        b = PB(H, tag="select-with-cumulative")
        ts = [b.task("ABCD"[i], "F", dur=2) for i in range(ntasks)]
        cu = b.cumul("M", 2)
        w = b.worker("W")
        s = [b.select(f"S{i + 1}", [w], n=1, kind="exact", cumuls=[cu]) for i in range(ntasks)]
        for t, si in zip(ts, s):
            b.require(t, select=si)
        q = b.done()
        q["_opts"] = {"solutions_only": True}
        ps.append(q)
    for ntasks in (2, 3):
        b = PB(2, tag="select-with-cumulative")
        ts = [b.task("ABCD"[i], "F", dur=2) for i in range(ntasks)]
        c1, c2 = b.cumul("M", 2), b.cumul("N", 2)
        for i, t in enumerate(ts):
            b.require(t, select=b.select(f"S{i + 1}", [], n=1, kind="exact", cumuls=[c1, c2]))
        q = b.done()
        q["_opts"] = {"solutions_only": True}
        ps.append(q)
    # cumulative + plain worker
    b = PB(4, tag="cumulative+worker")
    a, c = two_tasks(b)
    d = b.task("C", "F", dur=2)
    cu = b.cumul("M", 2)
    w = b.worker("W")
    for t in (a, c, d):
        b.require(t, cumul=cu)
    b.require(a, worker=w)
    b.require(d, worker=w)
    ps.append(b.done())
    # work amounts and productivities
    for work, p1, p2, (k1, kw1), sel in itertools.product((0, 1, 2, 5), (0, 1, 2), (1, 2),
                                                          [("V", dict(min=0, max=4)), ("F", dict(dur=2)), ("V", dict(min=0, allowed=[1, 3]))],
                                                          (False, True)):
        b = PB(4, tag="work")
        a = b.task("A", k1, work=work, optional=(work == 2 and p1 == 1), **kw1)
        w1, w2 = b.worker("W1", prod=p1), b.worker("W2", prod=p2)
        if sel:
            s = b.select("S", [w1, w2], n=1, kind="min")
            b.require(a, select=s)
        else:
            b.require(a, worker=w1)
            b.require(a, worker=w2)
        ps.append(b.done())
    # an OPTIONAL task with a work amount: when it is scheduled it has to reach it, when it is not it needs nothing
    for work, (k1, kw1), sel in itertools.product((1, 3), [("V", dict(min=0, max=4)), ("F", dict(dur=2))], (False, True)):
        b = PB(4, tag="work-optional")
        a = b.task("A", k1, work=work, optional=True, **kw1)
        c = b.task("B", "F", dur=1)
        w1, w2 = b.worker("W1", prod=1), b.worker("W2", prod=2)
        if sel:
            b.require(a, select=b.select("S", [w1, w2], n=1, kind="min"))
        else:
            b.require(a, worker=w1)
        b.require(c, worker=w1)
        ps.append(b.done())
    # two tasks with work amounts (each task's own workers must reach its own amount)
    for (wa, wb), (pa, pb) in itertools.product([(2, 1), (3, 3), (1, 4)], [(1, 1), (2, 1)]):
        b = PB(4, tag="work-two-tasks")
        a = b.task("A", "V", min=0, max=4, work=wa)
        c = b.task("B", "V", min=0, max=4, work=wb)
        w1, w2 = b.worker("W1", prod=pa), b.worker("W2", prod=pb)
        b.require(a, worker=w1)
        b.require(c, worker=w2)
        ps.append(b.done())
    # work amount on a cumulative worker
    for work, prod in itertools.product((2, 4), (2, 3)):
        b = PB(4, tag="work-cumulative")
        a = b.task("A", "V", min=0, max=4, work=work)
        c = b.task("B", "F", dur=2)
        cu = b.cumul("M", 2, prod=prod)
        b.require(a, cumul=cu)
        b.require(c, cumul=cu)
        ps.append(b.done())
    if not full:
        ps = sample(rng, ps, 150)
    return number(ps)


# ---------------------------------------------------------------------------------------
def _mix(b, kinds, optional=()):
    ts = []
    for i, k in enumerate(kinds):
        nm = "ABCD"[i]
        if k == "F1":
            ts.append(b.task(nm, "F", dur=1, optional=i in optional))
        elif k == "F2":
            ts.append(b.task(nm, "F", dur=2, optional=i in optional))
        elif k == "Z":
            ts.append(b.task(nm, "Z", optional=i in optional))
        elif k == "V":
            ts.append(b.task(nm, "V", min=0, max=2, optional=i in optional))
    return ts


def fam_C03(tier, seed):
    rng = random.Random(seed + 3)
    full = tier == "thorough"
    ps = []
    H = 4
    single = ["F1", "F2", "Z", "V"]
    # single task constraints
    for k, opt, value in itertools.product(single, (False, True), (-1, 0, 1, 3, 4, 5)):
        for cls in ("TaskStartAt", "TaskEndAt"):
            b = PB(H, tag=cls)
            (a,) = _mix(b, [k], optional=(0,) if opt else ())
            b.con(cls, task=a, value=value)
            ps.append(b.done())
        for cls, kind in itertools.product(("TaskStartAfter", "TaskEndBefore"), ("lax", "strict")):
            b = PB(H, tag=cls)
            (a,) = _mix(b, [k], optional=(0,) if opt else ())
            b.con(cls, task=a, value=value, kind=kind)
            ps.append(b.done())
    # the same single-task constraints on a task that has its own due date (deadline or not) / release date:
    # the constraint must hold whatever the task's own window says
    for k, due, dl, rel, value in itertools.product(("F1", "F2", "V"), (1, 2), (False, True), (None, 1), (1, 2, 3)):
        for cls, kind in itertools.product(("TaskStartAfter", "TaskEndBefore"), ("lax", "strict")):
            b = PB(H, tag=cls + "+own-window")
            if k == "V":
                a = b.task("A", "V", min=1, max=2, due=due, deadline=dl, release=rel)
            else:
                a = b.task("A", "F", dur=int(k[1]), due=due, deadline=dl, release=rel)
            b.con(cls, task=a, value=value, kind=kind)
            ps.append(b.done())
    # two-task constraints
    pairs = [("F2", "F1"), ("F1", "Z"), ("Z", "Z"), ("V", "F1"), ("Z", "V"), ("F2", "V")]
    opts = [(), (0,), (1,), (0, 1)]
    for (k1, k2), op in itertools.product(pairs, opts):
        for off, kind in itertools.product((0, 1, 2), ("lax", "strict", "tight")):
            b = PB(H, tag="TaskPrecedence")
            a, c = _mix(b, [k1, k2], optional=op)
            b.con("TaskPrecedence", before=a, after=c, offset=off, kind=kind)
            ps.append(b.done())
        for cls in ("TasksStartSynced", "TasksEndSynced", "TasksDontOverlap"):
            b = PB(H, tag=cls)
            a, c = _mix(b, [k1, k2], optional=op)
            b.con(cls, t1=a, t2=c)
            ps.append(b.done())
    # contiguous, groups
    triples = [("F1", "F2", "F1"), ("F1", "V", "F1"), ("F1", "F1", "Z"), ("F2", "F1"), ("Z", "Z"), ("Z", "V")]
    for ks, op in itertools.product(triples, [(), (0,), (1,)]):
        b = PB(4 if len(ks) == 3 else 4, tag="TasksContiguous")
        ts = _mix(b, ks, optional=op)
        b.con("TasksContiguous", tasks=ts)
        ps.append(b.done())
        for cls, interval, length in itertools.product(("UnorderedTaskGroup", "OrderedTaskGroup"),
                                                       (None, (0, 3), (1, 4), (1, 2), (0, 0)), (None, 0, 2, 3)):
            if interval is not None and length is not None:
                continue
            kinds = ("lax", "strict", "tight") if cls == "OrderedTaskGroup" else (None,)
            for kind in kinds:
                b = PB(4, tag=cls)
                ts = _mix(b, ks, optional=op)
                f = dict(tasks=ts, interval=[list(interval)] if interval else [], length=[length] if length is not None else [])
                if kind:
                    f["kind"] = kind
                b.con(cls, **f)
                ps.append(b.done())
    # precedence between task groups (and between a task and a group)
    for kind, off, op, shape in itertools.product(("lax", "strict"), (0, 1), [(), (1,), (2,)], ("gg", "tg", "gt")):
        b = PB(4 if shape != "gg" else 5, tag="TaskPrecedence-groups")
        ts = _mix(b, ("F1", "F1", "F1", "Z") if shape == "gg" else ("F1", "F1", "F2"), optional=op)
        if shape == "gg":
            g1 = b.con("UnorderedTaskGroup", tasks=ts[:2], interval=[], length=[])
            g2 = b.con("UnorderedTaskGroup", tasks=ts[2:], interval=[], length=[])
            b.con("TaskPrecedence", before=ts[0], after=ts[2], before_g=g1, after_g=g2, offset=off, kind=kind)
        elif shape == "tg":
            g2 = b.con("UnorderedTaskGroup", tasks=ts[1:], interval=[], length=[])
            b.con("TaskPrecedence", before=ts[0], after=ts[1], before_g=0, after_g=g2, offset=off, kind=kind)
        else:
            g1 = b.con("OrderedTaskGroup", tasks=ts[:2], interval=[], length=[], kind="lax")
            b.con("TaskPrecedence", before=ts[0], after=ts[2], before_g=g1, after_g=0, offset=off, kind=kind)
        ps.append(b.done())
    # N tasks in time intervals
    for ks, op, n, kind, ivs in itertools.product([("F1", "F1"), ("F2", "F1", "Z"), ("V", "F1")], [(), (0,)],
                                                  (0, 1, 2, 3), ("exact", "min", "max"),
                                                  ([[0, 2]], [[1, 3]], [[0, 1], [2, 4]], [[0, 2], [2, 4]], [[0, 3], [1, 4]], [[0, 2], [0, 4]])):
        if n > len(ks):
            continue
        b = PB(4, tag="ScheduleNTasksInTimeIntervals")
        ts = _mix(b, ks, optional=op)
        b.con("ScheduleNTasksInTimeIntervals", tasks=ts, n=n, kind=kind, intervals=ivs)
        ps.append(b.done())
    # combined with one context
    for cls in ("TaskPrecedence", "TasksDontOverlap", "TasksStartSynced"):
        for ctxk in ("worker", "select"):
            b = PB(4, tag=cls + "+" + ctxk)
            a, c = _mix(b, ["F2", "F1"], optional=(1,))
            w1, w2 = b.worker("W1"), b.worker("W2")
            if ctxk == "worker":
                b.require(a, worker=w1)
                b.require(c, worker=w1)
            else:
                s = b.select("S", [w1, w2])
                b.require(a, select=s)
                b.require(c, worker=w1)
            if cls == "TaskPrecedence":
                b.con(cls, before=a, after=c, offset=1, kind="lax")
            else:
                b.con(cls, t1=a, t2=c)
            ps.append(b.done())
    if not full:
        ps = sample(rng, ps, 380)
    return number(ps)
