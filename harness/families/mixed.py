"""Seeded random CROSS-FEATURE problems inside the exhaustive bounds.

The per-property families vary one constraint class at a time in a small context.  The problems
generated here combine classes (task + resource + optional + logic + buffer constraints on 2-3
tasks, horizon 4-5), with at least one constraint of the class group in `focus`, so that V(P) is
still enumerated completely by TLC while the encodings of different classes have to cooperate
(shared busy intervals, scheduled flags, applied flags of optional constraints).
"""
from __future__ import annotations

import random

from problems import (PB, number, res_worker, res_cumul, cmp, start, end, const, add, sub, mul, o_con, o_expr,
                      b_sched, b_not)

GROUPS = ("task", "resource", "optional", "logic", "buffer", "basic", "indicator", "objective")


class _Ctx:
    pass


def _tasks(rng, b, nt, want_optional):
    ts, kinds = [], []
    for i in range(nt):
        k = rng.choice(("F1", "F2", "F1", "V", "Z", "V0", "VA", "F3"))
        opt = rng.random() < (0.5 if want_optional else 0.2)
        kw = dict(optional=opt)
        if rng.random() < 0.15:
            kw["release"] = 1
        if rng.random() < 0.15:
            kw["due"] = b.p["H"] - 1
            kw["deadline"] = rng.random() < 0.7
        if rng.random() < 0.2:
            kw["work"] = rng.choice((1, 2))
        nm = "ABCDE"[i]
        if k[0] == "F":
            ts.append(b.task(nm, "F", dur=int(k[1]), **kw))
        elif k == "Z":
            kw.pop("work", None)
            ts.append(b.task(nm, "Z", **kw))
        elif k == "V":
            ts.append(b.task(nm, "V", min=1, max=rng.choice((2, 3)), **kw))
        elif k == "VA":
            ts.append(b.task(nm, "V", min=0, allowed=rng.choice(([1, 3], [1, 2], [2])), **kw))
        else:
            ts.append(b.task(nm, "V", min=0, max=2, **kw))
        kinds.append(k)
    return ts, kinds


def _resources(rng, b, ts, c):
    """W1 always exists; every task gets none / W1 / W2 / select(W1,W2) / cumulative."""
    costs = (None, None, 2, ("lin", 1, 1), ("poly", 1, 0, 1)) if getattr(c, "costs", False) else (None,)
    c.w1, c.w2 = b.worker("W1", prod=rng.choice((1, 1, 2)), cost=rng.choice(costs)), b.worker("W2", cost=rng.choice(costs))
    c.cu = b.cumul("M", 2) if rng.random() < 0.3 else None
    c.sel = None
    c.sel_reqs = []
    c.on_w1 = 0
    c.maybe_w1 = 0
    for i, t in enumerate(ts):
        r = rng.random()
        if i == 0 or r < 0.45:
            tk = b.p["tasks"][t - 1]
            shift = rng.random() < 0.2 and tk["kind"] == "F" and tk["dur"] >= 2
            b.require(t, worker=c.w1, delay_in=1 if shift and rng.random() < 0.5 else 0,
                      early_out=1 if shift and tk["dur"] >= 3 else 0)
            c.on_w1 += 1
            if rng.random() < 0.12 and tk["kind"] != "Z":
                b.require(t, worker=c.w2, dynamic=True)    # a helper that may join late and leave early
        elif r < 0.65:
            # one SelectWorkers per task (what a shared instance means for two tasks is not documented)
            c.sel = b.select(f"S{i + 1}", [c.w1, c.w2], n=1, kind=rng.choice(("exact", "exact", "min")))
            c.sel_reqs.append(b.require(t, select=c.sel))
            c.maybe_w1 += 1
        elif r < 0.8 and c.cu:
            b.require(t, cumul=c.cu)
        elif r < 0.9:
            b.require(t, worker=c.w2)


SIMPLE = ("startAt", "endAt", "startAfter", "endBefore", "prec", "ssync", "esync", "dont")
# constraints whose encoding is existential (auxiliary variables: sorted times, group window): their
# negation is the open finding F8 of C10, kept out of the other properties' problems
AUX = ("contig", "ugroup", "ogroup")


def _task_con(rng, b, ts, H, kinds=SIMPLE + AUX + ("nin",), **kw):
    a, d = rng.sample(ts, 2)
    k = rng.choice(kinds)
    if k == "startAt":
        return b.con("TaskStartAt", task=a, value=rng.choice((0, 1, 2)), **kw)
    if k == "endAt":
        return b.con("TaskEndAt", task=a, value=rng.choice((2, 3, H)), **kw)
    if k == "startAfter":
        return b.con("TaskStartAfter", task=a, value=rng.choice((1, 2)), kind=rng.choice(("lax", "strict")), **kw)
    if k == "endBefore":
        return b.con("TaskEndBefore", task=a, value=rng.choice((2, 3, H - 1)), kind=rng.choice(("lax", "strict")), **kw)
    if k == "prec":
        return b.con("TaskPrecedence", before=a, after=d, offset=rng.choice((0, 1)),
                     kind=rng.choice(("lax", "strict", "tight")), **kw)
    if k == "ssync":
        return b.con("TasksStartSynced", t1=a, t2=d, **kw)
    if k == "esync":
        return b.con("TasksEndSynced", t1=a, t2=d, **kw)
    if k == "dont":
        return b.con("TasksDontOverlap", t1=a, t2=d, **kw)
    if k == "contig":
        return b.con("TasksContiguous", tasks=sorted(rng.sample(ts, rng.choice((2, len(ts))))), **kw)
    if k in ("ugroup", "ogroup"):
        sub = rng.sample(ts, 2)
        mode = rng.choice(("none", "interval", "length"))
        f = dict(tasks=sub, interval=[[rng.choice((0, 1)), rng.choice((3, 4))]] if mode == "interval" else [],
                 length=[rng.choice((2, 3))] if mode == "length" else [])
        if k == "ogroup":
            f["kind"] = rng.choice(("lax", "strict", "tight"))
        return b.con("UnorderedTaskGroup" if k == "ugroup" else "OrderedTaskGroup", **f, **kw)
    ivs = rng.choice(([[0, 2]], [[1, 3]], [[0, 1], [2, 4]], [[0, 2], [2, 4]]))
    return b.con("ScheduleNTasksInTimeIntervals", tasks=list(ts), n=rng.choice((0, 1, 2)),
                 kind=rng.choice(("exact", "min", "max")), intervals=ivs, **kw)


def _res_con(rng, b, c, H, **kw):
    res = res_worker(c.w1)
    if c.cu and rng.random() < 0.15 and any(r["type"] == "cumul" for r in b.p["reqs"]):
        res = res_cumul(c.cu)
    k = rng.choice(("unavail", "workload", "punavail", "interrupted", "pinterrupted", "nondelay", "distance", "same"))
    if k == "same" and len(c.sel_reqs) >= 2:
        return b.con(rng.choice(("SameWorkers", "DistinctWorkers")), r1=c.sel_reqs[0], r2=c.sel_reqs[1], **kw)
    if k == "same":
        k = "unavail"
    if k == "unavail":
        lo = rng.choice((0, 1, 2))
        return b.con("ResourceUnavailable", res=res, intervals=[[lo, lo + rng.choice((1, 2))]], **kw)
    if k == "workload":
        return b.con("WorkLoad", res=res, intervals=[[rng.choice((0, 1)), rng.choice((2, 3, H)), rng.choice((0, 1, 2))]],
                     kind=rng.choice(("max", "max", "min", "exact")), **kw)
    if k == "punavail":
        return b.con("ResourcePeriodicallyUnavailable", res=res, intervals=[[1, 2]], period=rng.choice((2, 3)),
                     start=rng.choice((0, 0, 2)), offset=rng.choice((0, 0, 1)), end=rng.choice(([], [], [4])), **kw)
    if res["t"] == "cumul":
        return b.con("ResourceUnavailable", res=res, intervals=[[1, 2]], **kw)
    if k in ("interrupted", "pinterrupted") and getattr(c, "no_interruption", False):
        # (objective problems: an interrupted variable task with a max_duration is the open finding F1 -- the optimum
        # over V(P) is then not reachable by the implementation; F1 is judged by C05 / C06 / C10, not by C07)
        k = "unavail"
    if k == "unavail" and getattr(c, "no_interruption", False):
        lo = rng.choice((0, 1, 2))
        return b.con("ResourceUnavailable", res=res, intervals=[[lo, lo + rng.choice((1, 2))]], **kw)
    if k in ("interrupted", "pinterrupted"):
        # at most ONE interruption constraint per problem: two of them on one resource are the open finding F9,
        # exercised on purpose by the C04 family (tag two-interruption-constraints) and kept out of the others
        if getattr(c, "has_interruption", False):
            return b.con("ResourceUnavailable", res=res, intervals=[[1, 2]], **kw)
        c.has_interruption = True
    if k == "interrupted":
        lo = rng.choice((1, 2))
        return b.con("ResourceInterrupted", res=res, intervals=[[lo, lo + 1]], **kw)
    if k == "pinterrupted":
        return b.con("ResourcePeriodicallyInterrupted", res=res, intervals=[[1, 2]], period=3,
                     start=0, offset=rng.choice((0, 1)), end=[], **kw)
    if k == "nondelay":
        return b.con("ResourceNonDelay", res=res, **kw)
    if c.on_w1 + c.maybe_w1 < 2:
        return b.con("ResourceNonDelay", res=res, **kw)   # the library refuses a distance constraint on fewer than 2 tasks
    iv = rng.choice((None, [[0, 3]]))
    return b.con("ResourceTasksDistance", res=res, distance=rng.choice((0, 1, 2)), mode=rng.choice(("exact", "min", "max")),
                 has_intervals=iv is not None, intervals=iv or [], **kw)


def _opt_con(rng, b, ts, **kw):
    opts = [t for t in ts if b.p["tasks"][t - 1]["optional"]]
    if not opts:
        return None
    a = rng.choice(opts)
    k = rng.choice(("force", "cond", "dep", "nopt"))
    if k == "force":
        return b.con("OptionalTaskForceSchedule", task=a, flag=rng.random() < 0.6, **kw)
    others = [t for t in ts if t != a]
    if k == "cond":
        o = rng.choice(others)
        e = rng.choice((cmp("ge", start(o), 1), cmp("le", end(o), 2), cmp("eq", start(o), 0)))
        if b.p["tasks"][o - 1]["optional"]:
            return b.con("OptionalTaskForceSchedule", task=a, flag=True, **kw)
        return b.con("OptionalTaskConditionSchedule", task=a, cond=e, **kw)
    if k == "dep":
        return b.con("OptionalTasksDependency", t1=rng.choice(others), t2=a, **kw)
    return b.con("ForceScheduleNOptionalTasks", tasks=opts, n=rng.choice((1, 1, len(opts))),
                 kind=rng.choice(("exact", "min", "max")), **kw)


def _atom(rng, b, ts, c, H, aux_ok=True):
    r = rng.random()
    mand = [t for t in ts if not b.p["tasks"][t - 1]["optional"]]
    if r < 0.25 and len(mand) >= 2:
        a, d = rng.sample(mand, 2)
        # raw expressions only over tasks that are always scheduled (otherwise the corner is unspecified anyway)
        return o_expr(rng.choice((cmp("ge", start(d), add(start(a), const(1))), cmp("eq", end(a), 2),
                                  cmp("le", start(a), 1))))
    # operands are built-in TASK constraints and raw expressions (the scope of C10); a resource constraint
    # used as an operand is outside the stated property
    return o_con(_task_con(rng, b, ts, H) if aux_ok else _task_con(rng, b, ts, H, kinds=SIMPLE + ("nin",)))


def _logic_con(rng, b, ts, c, H, neg_aux_ok=True):
    k = rng.choice(("not", "and", "or", "xor", "implies", "ite", "napply"))
    mand = [t for t in ts if not b.p["tasks"][t - 1]["optional"]]
    a = rng.choice(mand or ts)
    cond = rng.choice((cmp("le", start(a), 1), cmp("gt", end(a), 2)))
    if not mand and k in ("implies", "ite"):
        k = "or"
    if k == "not":
        return b.con("Not", x=_atom(rng, b, ts, c, H, neg_aux_ok))
    if k in ("and", "or"):
        return b.con("And" if k == "and" else "Or", xs=[_atom(rng, b, ts, c, H), _atom(rng, b, ts, c, H)])
    if k == "xor":
        return b.con("Xor", x=_atom(rng, b, ts, c, H, neg_aux_ok), y=_atom(rng, b, ts, c, H, neg_aux_ok))
    if k == "implies":
        return b.con("Implies", cond=cond, xs=[_atom(rng, b, ts, c, H)])
    if k == "ite":
        return b.con("IfThenElse", cond=cond, xs=[_atom(rng, b, ts, c, H)], ys=[_atom(rng, b, ts, c, H)])
    idx = [_task_con(rng, b, ts, H, optional=True), (_res_con if rng.random() < 0.5 else
                                                      (lambda r, bb, cc, hh, **kw: _task_con(r, bb, ts, hh, **kw)))(rng, b, c, H, optional=True)]
    return b.con("ForceApplyNOptionalConstraints", cons=idx, n=rng.choice((1, 1, 2)), kind=rng.choice(("exact", "min", "max")))


def _buffer(rng, b, ts):
    conc = rng.random() < 0.5
    initial = rng.choice((None, 1, 2))
    bf = b.buffer("Bf", concurrent=conc, initial=initial, final=rng.choice((None, None, 1) if initial is not None else (1, 2)),
                  lower=rng.choice((None, 0)), upper=rng.choice((None, 3)))
    x, y = rng.sample(ts, 2)
    b.unload(x, bf, rng.choice((1, 2)))
    b.load(y, bf, 1)
    if len(ts) > 2 and rng.random() < 0.4:
        z = [t for t in ts if t not in (x, y)][0]
        (b.load if rng.random() < 0.5 else b.unload)(z, bf, 1)


def _indicator(rng, b, ts, c):
    """one random indicator; returns its index (or None when nothing applies)"""
    due = [t for t in ts if b.p["tasks"][t - 1]["due"]]
    mand = [t for t in ts if not b.p["tasks"][t - 1]["optional"]]
    kinds = ["util", "ntasks", "cost", "flow1"]
    if c.on_w1 + c.maybe_w1 >= 2:
        kinds.append("idle")
    if due:
        kinds += ["tard", "early", "ntardy", "maxlate"]
    if len(mand) >= 2:
        kinds.append("expr")
    if b.p["buffers"]:
        kinds += ["maxbuf", "minbuf"]
    if c.cu and any(r["type"] == "cumul" for r in b.p["reqs"]):
        kinds += ["ntasks_cu", "cost_cu"]
    k = rng.choice(kinds)
    r1 = res_worker(c.w1)
    if k == "util":
        return b.ind("IndicatorResourceUtilization", res=r1)
    if k == "ntasks":
        return b.ind("IndicatorNumberTasksAssigned", res=r1)
    if k == "ntasks_cu":
        return b.ind("IndicatorNumberTasksAssigned", res=res_cumul(c.cu))
    if k == "cost":
        return b.ind("IndicatorResourceCost", ress=[r1] + ([res_worker(c.w2)] if rng.random() < 0.5 else []))
    if k == "cost_cu":
        return b.ind("IndicatorResourceCost", ress=[res_cumul(c.cu)])
    if k == "idle":
        return b.ind("IndicatorResourceIdle", res=r1)
    if k in ("tard", "early", "ntardy", "maxlate"):
        cls = {"tard": "IndicatorTardiness", "early": "IndicatorEarliness", "ntardy": "IndicatorNumberOfTardyTasks",
               "maxlate": "IndicatorMaximumLateness"}[k]
        return b.ind(cls, tasks=due)
    if k == "expr":
        a, d = rng.sample(mand, 2)
        return b.ind("IndicatorFromMathExpression", name=f"E{len(b.p['inds'])}",
                     expr=rng.choice((sub(start(d), end(a)), add(mul(2, start(a)), end(d)), end(a))))
    if k in ("maxbuf", "minbuf"):
        return b.ind("IndicatorMaxBufferLevel" if k == "maxbuf" else "IndicatorMinBufferLevel", buffer=1)
    return None


def _objective(rng, b, ts, c, H):
    """one objective (with the indicator it is about); returns True when one was added"""
    mand = [t for t in ts if not b.p["tasks"][t - 1]["optional"]]
    k = rng.choice(("makespan", "flowtime", "priorities", "latest", "earliest", "greatest", "cost", "util", "user_min", "user_max",
                    "flow1"))
    if k == "makespan":
        b.obj("ObjectiveMinimizeMakespan")
    elif k in ("flowtime", "priorities", "latest", "earliest", "greatest"):
        ocls, icls = {"flowtime": ("ObjectiveMinimizeFlowtime", "Flowtime"), "priorities": ("ObjectivePriorities", "TotalPriority"),
                      "latest": ("ObjectiveTasksStartLatest", "MinimumStartTime"),
                      "earliest": ("ObjectiveTasksStartEarliest", "WeightedStartTimes"),
                      "greatest": ("ObjectiveMinimizeGreatestStartTime", "GreatestStartTime")}[k]
        b.obj(ocls, ind=b.ind(icls, name=icls, tasks=list(ts)), kind="maximize" if k == "latest" else "minimize")
    elif k == "cost":
        b.obj("ObjectiveMinimizeResourceCost", ind=b.ind("IndicatorResourceCost", ress=[res_worker(c.w1), res_worker(c.w2)], by_objective=True),
              ress=[res_worker(c.w1), res_worker(c.w2)])
    elif k == "util":
        b.obj("ObjectiveMaximizeResourceUtilization", ind=b.ind("IndicatorResourceUtilization", res=res_worker(c.w1), by_objective=True),
              res=res_worker(c.w1), kind="maximize")
    elif k == "flow1":
        b.obj("ObjectiveMinimizeFlowtimeSingleResource",
              ind=b.ind("FlowtimeSingleResource", name="FlowTimeSingleResource(W1:0:horizon)", res=res_worker(c.w1), lo=0, hi=H, whole=True))
    else:
        if len(mand) < 2:
            b.obj("ObjectiveMinimizeMakespan")
            return True
        a, d = rng.sample(mand, 2)
        i = b.ind("IndicatorFromMathExpression", name="U", expr=add(end(a), mul(2, start(d))), bounds=[0, 3 * H])
        b.obj("ObjectiveMinimizeIndicator" if k == "user_min" else "ObjectiveMaximizeIndicator", ind=i,
              kind="minimize" if k == "user_min" else "maximize")
    return True


def one(rng, focus, large=False):
    """large=True: 4-5 tasks on a horizon of 7-8 (beyond what TLC enumerates completely: V(P) is then SAMPLED by
    TLC's simulation mode, and whatever the library returns is validated by TimelineTrace)."""
    H = rng.choice((7, 8)) if large else rng.choice((4, 4, 5))
    b = PB(H, tag=("large-mixed-" if large else "mixed-") + focus)
    c = _Ctx()
    c.costs = focus in ("indicator", "objective")
    c.no_interruption = focus == "objective"
    nt = rng.choice((4, 5)) if large else rng.choice((2, 3, 3))
    ts, _ = _tasks(rng, b, nt, want_optional=focus == "optional")
    if focus == "optional" and not any(t["optional"] for t in b.p["tasks"]):
        b.p["tasks"][-1]["optional"] = True
    _resources(rng, b, ts, c)

    def add(group):
        if group == "task":
            _task_con(rng, b, ts, H)
        elif group == "resource":
            _res_con(rng, b, c, H)
        elif group == "optional":
            _opt_con(rng, b, ts)
        elif group == "logic":
            _logic_con(rng, b, ts, c, H, neg_aux_ok=focus == "logic")
        elif group == "buffer":
            if not b.p["buffers"]:
                _buffer(rng, b, ts)
        # "basic": nothing beyond tasks/resources

    add(focus)
    for _ in range(rng.choice((2, 3)) if large else rng.choice((1, 2, 2))):
        add(rng.choice(("task", "task", "resource", "resource", "optional", "logic", "buffer")))
    if focus == "indicator":
        made = [i for i in (_indicator(rng, b, ts, c) for _ in range(rng.choice((2, 3)))) if i]
        if made and rng.random() < 0.4:
            i = rng.choice(made)
            if b.p["inds"][i - 1]["cls"] not in ("IndicatorResourceUtilization", "IndicatorResourceCost"):   # (rounded values)
                if rng.random() < 0.5:
                    b.con("IndicatorTarget", ind=i, value=rng.choice((0, 1, 2)))
                else:
                    lo = rng.choice((0, 1))
                    b.con("IndicatorBounds", ind=i, lower=[lo], upper=rng.choice(([], [lo + 1], [lo + 2])))
    if focus == "objective":
        _objective(rng, b, ts, c, H)
    return b.done()


def fam_mixed_large(tier, seed, focus, n=None):
    assert focus in GROUPS
    rng = random.Random(f"large-mixed-{focus}-{seed}")
    n = n or (30 if tier == "thorough" else 8)
    return number([one(rng, focus, large=True) for _ in range(n)])


def fam_mixed(tier, seed, focus, n=None):
    assert focus in GROUPS
    rng = random.Random(f"mixed-{focus}-{seed}")
    n = n or (240 if tier == "thorough" else 36)
    return number([one(rng, focus) for _ in range(n)])
