"""Problems and cases for the solver-object properties (C07, C12, C13, C15, C19)."""
from __future__ import annotations

import itertools
import random

from problems import PB, number, res_worker, cmp, start, end, const, add, sub, mul


def _two_on_worker(b, opt=False):
    a = b.task("A", "F", dur=2, priority=2)
    c = b.task("B", "F", dur=1, optional=opt)
    w = b.worker("W")
    b.require(a, worker=w)
    b.require(c, worker=w)
    return a, c, w


OBJECTIVES = ["none", "makespan", "flowtime", "priorities", "start_latest", "start_earliest", "greatest_start",
              "min_expr", "max_expr", "min_bounded", "max_bounded", "cost", "two_min", "two_max", "two_min_w0", "max_buffer", "min_buffer",
              "min_lateness", "min_tardiness", "min_earliness"]


def add_objective(b, name, a, c, w=None):
    if name == "none":
        return
    if name == "makespan":
        b.obj("ObjectiveMinimizeMakespan")
    elif name == "flowtime":
        b.obj("ObjectiveMinimizeFlowtime", ind=b.ind("Flowtime", name="Flowtime", tasks=[a, c]))
    elif name == "priorities":
        b.obj("ObjectivePriorities", ind=b.ind("TotalPriority", name="TotalPriority", tasks=[a, c]))
    elif name == "start_latest":
        b.obj("ObjectiveTasksStartLatest", ind=b.ind("MinimumStartTime", name="MinimumStartTime", tasks=[a, c]), kind="maximize")
    elif name == "start_earliest":
        b.obj("ObjectiveTasksStartEarliest", ind=b.ind("WeightedStartTimes", name="WeightedStartTimes", tasks=[a, c]))
    elif name == "greatest_start":
        b.obj("ObjectiveMinimizeGreatestStartTime", ind=b.ind("GreatestStartTime", name="GreatestStartTime", tasks=[a, c]))
    elif name == "min_expr":
        i = b.ind("IndicatorFromMathExpression", name="E", expr=add(mul(2, start(a)), end(c)))
        b.obj("ObjectiveMinimizeIndicator", ind=i, kind="minimize", weight=1)
    elif name == "max_expr":
        i = b.ind("IndicatorFromMathExpression", name="E", expr=sub(end(c), start(a)))
        b.obj("ObjectiveMaximizeIndicator", ind=i, kind="maximize", weight=1)
    elif name == "min_bounded":
        # an indicator with declared (true) two-sided bounds: H - start(a) ranges over 0..H
        i = b.ind("IndicatorFromMathExpression", name="EB", expr=sub(const(b.p["H"]), start(a)), bounds=[0, b.p["H"]])
        b.obj("ObjectiveMinimizeIndicator", ind=i, kind="minimize", weight=1)
    elif name == "max_bounded":
        i = b.ind("IndicatorFromMathExpression", name="EB", expr=sub(const(b.p["H"]), start(a)), bounds=[0, b.p["H"]])
        b.obj("ObjectiveMaximizeIndicator", ind=i, kind="maximize", weight=1)
    elif name in ("min_lateness", "min_tardiness", "min_earliness"):
        # objectives over the due-date indicators (maximum lateness is SIGNED: its optimum is negative when every
        # task can finish before its due date; tardiness / earliness are bounded below by 0)
        H = b.p["H"]
        for t, due in ((a, H), (c, H - 1)):
            b.p["tasks"][t - 1]["due"] = [due]
            b.p["tasks"][t - 1]["deadline"] = False
        cls = {"min_lateness": "IndicatorMaximumLateness", "min_tardiness": "IndicatorTardiness",
               "min_earliness": "IndicatorEarliness"}[name]
        i = b.ind(cls, tasks=sorted({a, c}))
        b.obj("ObjectiveMinimizeIndicator", ind=i, kind="minimize", weight=1)
    elif name in ("max_buffer", "min_buffer"):
        i = b.ind("IndicatorMaxBufferLevel", buffer=1, by_objective=True)
        b.obj("ObjectiveMaximizeMaxBufferLevel" if name == "max_buffer" else "ObjectiveMinimizeMaxBufferLevel", ind=i,
              kind="maximize" if name == "max_buffer" else "minimize", buffer=1)
    elif name == "cost":
        i = b.ind("IndicatorResourceCost", ress=[res_worker(x) for x in w], by_objective=True)
        b.obj("ObjectiveMinimizeResourceCost", ind=i, ress=[res_worker(x) for x in w])
    elif name == "two_min":
        i = b.ind("IndicatorFromMathExpression", name="E1", expr=start(a))
        j = b.ind("IndicatorFromMathExpression", name="E2", expr=end(c))
        b.obj("ObjectiveMinimizeIndicator", ind=i, kind="minimize", weight=1)
        b.obj("ObjectiveMinimizeIndicator", ind=j, kind="minimize", weight=2)
    elif name == "two_min_w0":
        # a weight of 0 is legal: that objective does not count
        i = b.ind("IndicatorFromMathExpression", name="E1", expr=sub(const(b.p["H"]), start(a)))
        j = b.ind("IndicatorFromMathExpression", name="E2", expr=end(c))
        b.obj("ObjectiveMinimizeIndicator", ind=i, kind="minimize", weight=0)
        b.obj("ObjectiveMinimizeIndicator", ind=j, kind="minimize", weight=2)
    elif name == "two_max":
        i = b.ind("IndicatorFromMathExpression", name="E1", expr=start(a))
        j = b.ind("IndicatorFromMathExpression", name="E2", expr=sub(const(4), end(c)))
        b.obj("ObjectiveMaximizeIndicator", ind=i, kind="maximize", weight=3)
        b.obj("ObjectiveMaximizeIndicator", ind=j, kind="maximize", weight=1)


def pool(objectives, shapes=("plain", "optional", "select", "variable", "buffer", "infeasible", "single"), H=4):
    ps = []
    for shape, on in itertools.product(shapes, objectives):
        b = PB(H, tag=f"{shape}/{on}")
        ws = None
        if shape == "plain":
            a, c, w = _two_on_worker(b)
            ws = [w]
        elif shape == "optional":
            a, c, w = _two_on_worker(b, opt=True)
            ws = [w]
        elif shape == "select":
            a = b.task("A", "F", dur=2, priority=2)
            c = b.task("B", "F", dur=1)
            w1, w2 = b.worker("W1", cost=1), b.worker("W2", cost=("lin", 2, 0))
            s = b.select("S", [w1, w2])
            b.require(a, select=s)
            b.require(c, worker=w1)
            ws = [w1, w2]
        elif shape == "variable":
            a = b.task("A", "V", min=1, max=2, priority=2)
            c = b.task("B", "F", dur=1)
            w = b.worker("W", cost=2)
            b.require(a, worker=w)
            b.require(c, worker=w)
            b.con("TaskPrecedence", before=a, after=c, offset=0, kind="lax")
            ws = [w]
        elif shape == "buffer":
            a, c, w = _two_on_worker(b)
            ws = [w]
            bf = b.buffer("Bf", initial=1, lower=0)
            b.unload(a, bf, 1)
            b.load(c, bf, 2)
        elif shape == "all-optional":
            # every task may be left out: the best makespan is 0 (nothing scheduled), never a negative date
            a = b.task("A", "F", dur=2, priority=2, optional=True)
            c = b.task("B", "F", dur=1, optional=True)
            w = b.worker("W")
            b.require(a, worker=w)
            b.require(c, worker=w)
            ws = [w]
        elif shape == "buffer-final":
            a, c, w = _two_on_worker(b)
            ws = [w]
            bf = b.buffer("Bf", initial=1, final=2, lower=0)
            b.unload(a, bf, 1)
            b.load(c, bf, 2)
        elif shape == "free-horizon":
            # no user horizon: every solution reports its own horizon, never before the end of its last task
            b = PB(H, user_horizon=False, tag=f"{shape}/{on}")
            a, c, w = _two_on_worker(b)
            ws = [w]
        elif shape == "infeasible":
            a, c, w = _two_on_worker(b)
            ws = [w]
            b.con("TaskStartAt", task=a, value=1)
            b.con("TaskEndAt", task=c, value=2)
        elif shape == "single":
            a = b.task("A", "F", dur=2)
            c = a
            w = b.worker("W", cost=1)
            b.require(a, worker=w)
            ws = [w]
        if on == "cost" and shape in ("plain", "optional", "buffer", "infeasible", "buffer-final", "free-horizon", "all-optional"):
            continue
        if on in ("max_buffer", "min_buffer") and shape not in ("buffer", "buffer-final"):
            continue
        if on in ("min_lateness", "min_tardiness", "min_earliness") and shape in ("optional", "infeasible", "all-optional"):
            continue   # (an extremum over an unscheduled task is an open corner)
        if on in ("two_min", "two_max", "two_min_w0") and shape == "single":
            continue
        add_objective(b, on, a, c, ws)
        ps.append(b.done())
    return ps
