"""Problem family for C09 (buffers)."""
from __future__ import annotations

import itertools
import random

from problems import PB, number
from families.tasks import sample


def fam_C09(tier, seed):
    rng = random.Random(seed + 9)
    full = tier == "thorough"
    ps = []
    shapes = {"F1": ("F", dict(dur=1)), "F2": ("F", dict(dur=2)), "Z": ("Z", {}), "V": ("V", dict(min=0, max=2))}
    # one buffer, 2-3 accessing tasks, every bound combination
    for conc, init, final, (lo, hi), ops in itertools.product(
            (False, True), (None, 0, 2), (None, 0, 2), [(None, None), (0, None), (None, 3), (0, 3), (0, 2), (None, 0), (-1, 1)],
            [(("F1", "u", 1), ("F2", "l", 1)),
             (("F1", "u", 1), ("F1", "u", 1), ("F2", "l", 2)),
             (("Z", "l", 1), ("F1", "u", 2)),
             (("V", "l", 2), ("F1", "u", 1), ("Z", "u", 1)),
             (("F1", "l", 1), ("F1", "l", 1))]):
        if init is None and final is None:
            continue
        b = PB(4, tag="conc" if conc else "nonconc")
        bf = b.buffer("Bf", concurrent=conc, initial=init, final=final, lower=lo, upper=hi, init_lo=0, init_hi=3)
        for i, (k, d, q) in enumerate(ops):
            t = b.task("ABC"[i], shapes[k][0], **shapes[k][1])
            (b.unload if d == "u" else b.load)(t, bf, q)
        ps.append(b.done())
    # two buffers fed by the same tasks
    for conc in (False, True):
        b = PB(4, tag="two-buffers")
        b1 = b.buffer("B1", concurrent=conc, initial=2, lower=0)
        b2 = b.buffer("B2", concurrent=conc, initial=0, upper=2)
        a = b.task("A", "F", dur=2)
        c = b.task("B", "F", dur=1)
        b.unload(a, b1, 1)
        b.load(a, b2, 1)
        b.unload(c, b1, 1)
        b.load(c, b2, 1)
        ps.append(b.done())
    # optional loaders / unloaders, both buffer kinds (an unscheduled task does not move the level)
    for conc, (oa, oc), lo in itertools.product((False, True), [(True, False), (False, True), (True, True)], (None, 0)):
        b = PB(3, tag="optional-access")
        bf = b.buffer("Bf", concurrent=conc, initial=1, lower=lo, upper=3)
        a = b.task("A", "F", dur=1, optional=oa)
        c = b.task("B", "Z", optional=oc)
        d = b.task("C", "F", dur=1)
        b.unload(a, bf, 1)
        b.load(c, bf, 2)
        b.load(d, bf, 1)
        ps.append(b.done())
    # with a worker and an optional task
    for conc, opt in itertools.product((False, True), (False, True)):
        b = PB(4, tag="buffer+worker")
        bf = b.buffer("Bf", concurrent=conc, initial=1, lower=0, upper=2)
        a = b.task("A", "F", dur=1, optional=opt)
        c = b.task("B", "F", dur=2)
        w = b.worker("W")
        b.require(a, worker=w)
        b.require(c, worker=w)
        b.unload(a, bf, 1)
        b.load(c, bf, 1)
        ps.append(b.done())
    # instants far from 0 (a pinned schedule on a long horizon: three-digit times in the reported history), with two
    # accesses at the same instant on a concurrent buffer
    for conc in (True, False):
        # (release date + deadline pin every task: TLC's machine prunes on them while time advances)
        b = PB(312, tag="late-instants")
        bf = b.buffer("Bf", concurrent=conc, initial=100, lower=0)
        a = b.task("A", "F", dur=2, release=300, due=302)
        c = b.task("B", "F", dur=3, release=300 if conc else 302, due=303 if conc else 305)
        d = b.task("C", "F", dur=1, release=310, due=311)
        b.unload(a, bf, 50)
        (b.unload if conc else b.load)(c, bf, 12)
        b.unload(d, bf, 17)
        q = b.done()
        q["keep"] = True
        ps.append(q)
    # a user-defined subclass of a buffer class behaves like its base class
    for conc, simultaneous, lo in itertools.product((False, True), (False, True), (0, None)):
        b = PB(3, tag="buffer-subclass")
        bf = b.buffer("Silo", concurrent=conc, initial=5, lower=lo)
        b.p["buffers"][bf - 1]["subclass"] = True
        a = b.task("A", "F", dur=1)
        c = b.task("B", "F", dur=1)
        b.unload(a, bf, 1)
        b.unload(c, bf, 1)
        if simultaneous:
            b.con("TasksStartSynced", t1=a, t2=c)
        q = b.done()
        q["keep"] = True
        ps.append(q)
    if not full:
        ps = sample(rng, ps, 160)
    return number(ps)
