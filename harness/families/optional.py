"""Problem family for C06 (optional tasks)."""
from __future__ import annotations

import itertools
import random

from problems import PB, number, res_worker, cmp, start, end, const, b_sched, b_not, b_and
from families.tasks import sample


def fam_C06(tier, seed):
    rng = random.Random(seed + 6)
    full = tier == "thorough"
    ps = []
    shapes = [("F", dict(dur=1)), ("F", dict(dur=2)), ("Z", {}), ("V", dict(min=0, max=2)), ("V", dict(min=1, allowed=[1, 3]))]
    # every subset of tasks optional, with the things an unscheduled task must not touch
    for (k1, kw1), (k2, kw2), opts, ctx in itertools.product(
            shapes, shapes[:3], [(True, False), (True, True), (False, True)],
            ("worker", "select", "cumul", "buffer", "work", "release", "precedence", "indicators")):
        b = PB(4, tag="opt-" + ctx)
        kw1 = dict(kw1)
        kw2 = dict(kw2)
        if ctx == "release":
            kw1.update(release=1, due=3)
        if ctx == "work":
            kw1.update(work=2)
        if ctx == "indicators":
            kw1.update(due=2, deadline=False)
            kw2.update(due=1, deadline=False)
        a = b.task("A", k1, optional=opts[0], **kw1)
        c = b.task("B", k2, optional=opts[1], **kw2)
        if ctx in ("worker", "work"):
            w = b.worker("W", prod=1)
            b.require(a, worker=w)
            b.require(c, worker=w)
        elif ctx == "select":
            w1, w2 = b.worker("W1"), b.worker("W2")
            s = b.select("S", [w1, w2])
            b.require(a, select=s)
            b.require(c, worker=w1)
        elif ctx == "cumul":
            cu = b.cumul("M", 2)
            d = b.task("C", "F", dur=2)
            for t in (a, c, d):
                b.require(t, cumul=cu)
        elif ctx == "buffer":
            bf = b.buffer("Bf", initial=1, lower=0, upper=2)
            b.unload(a, bf, 1)
            b.load(c, bf, 1)
        elif ctx == "precedence":
            b.con("TaskPrecedence", before=a, after=c, offset=1, kind="lax")
        elif ctx == "indicators":
            b.ind("IndicatorTardiness", tasks=[a, c])
            b.ind("IndicatorEarliness", tasks=[a, c])
            b.ind("IndicatorNumberOfTardyTasks", tasks=[a, c])
            b.ind("Flowtime", name="Flowtime", tasks=[a, c])
            b.obj("ObjectiveMinimizeFlowtime", ind=4)
        ps.append(b.done())
    # the optional-task rules
    for (k1, kw1), flag in itertools.product(shapes, (True, False)):
        b = PB(3, tag="OptionalTaskForceSchedule")
        a = b.task("A", k1, optional=True, **kw1)
        b.task("B", "F", dur=1)
        b.con("OptionalTaskForceSchedule", task=a, flag=flag)
        ps.append(b.done())
    for (k1, kw1), cond in itertools.product(shapes[:3], ("b_start_ge_1", "b_end_le_2", "b_sched")):
        b = PB(3, tag="OptionalTaskConditionSchedule")
        a = b.task("A", k1, optional=True, **kw1)
        c = b.task("B", "F", dur=1, optional=(cond == "b_sched"))
        e = {"b_start_ge_1": cmp("ge", start(c), 1), "b_end_le_2": cmp("le", end(c), 2), "b_sched": b_sched(c)}[cond]
        b.con("OptionalTaskConditionSchedule", task=a, cond=e)
        ps.append(b.done())
    for (k1, kw1), o1 in itertools.product(shapes[:3], (True, False)):
        b = PB(3, tag="OptionalTasksDependency")
        a = b.task("A", k1, optional=o1, **kw1)
        c = b.task("B", "F", dur=1, optional=True)
        b.con("OptionalTasksDependency", t1=a, t2=c)
        ps.append(b.done())
    for m, n, kind in itertools.product((2, 3), (1, 2, 3), ("exact", "min", "max")):
        if n > m:
            continue
        b = PB(3, tag="ForceScheduleNOptionalTasks")
        ts = [b.task("ABC"[i], "F", dur=1 + (i % 2), optional=True) for i in range(m)]
        w = b.worker("W")
        for t in ts:
            b.require(t, worker=w)
        b.con("ForceScheduleNOptionalTasks", tasks=ts, n=n, kind=kind)
        ps.append(b.done())
    # precedence in every form, with an optional predecessor / successor
    for kind, off, opts in itertools.product(("lax", "strict", "tight"), (0, 2), [(True, False), (False, True), (True, True)]):
        b = PB(4, tag="opt-precedence-kinds")
        a = b.task("A", "F", dur=1, optional=opts[0])
        c = b.task("B", "F", dur=1, optional=opts[1])
        b.con("TaskPrecedence", before=a, after=c, offset=off, kind=kind)
        ps.append(b.done())
    # single-task constraints on an optional task
    for cls, kw in (("TaskStartAt", dict(value=5)), ("TaskEndAt", dict(value=0)), ("TaskStartAfter", dict(value=4, kind="strict")),
                    ("TaskEndBefore", dict(value=0, kind="strict"))):
        b = PB(3, tag="opt-" + cls)
        a = b.task("A", "F", dur=1, optional=True)
        b.task("B", "F", dur=1)
        b.con(cls, task=a, **kw)   # cannot hold for a scheduled A: A must be left out, B keeps all its schedules
        ps.append(b.done())
    # optional tasks under every two-task constraint and in groups
    for cls in ("TasksStartSynced", "TasksEndSynced", "TasksDontOverlap"):
        for opts in [(True, False), (True, True)]:
            b = PB(3, tag="opt-" + cls)
            a = b.task("A", "F", dur=2, optional=opts[0])
            c = b.task("B", "F", dur=1, optional=opts[1])
            b.con(cls, t1=a, t2=c)
            ps.append(b.done())
    for cls in ("TasksContiguous", "UnorderedTaskGroup", "OrderedTaskGroup"):
        for op in [(0,), (1,), (0, 2)]:
            b = PB(4, tag="opt-" + cls)
            ts = [b.task("ABC"[i], "F", dur=1, optional=i in op) for i in range(3)]
            if cls == "TasksContiguous":
                b.con(cls, tasks=ts)
            elif cls == "UnorderedTaskGroup":
                b.con(cls, tasks=ts, interval=[[1, 4]], length=[])
            else:
                b.con(cls, tasks=ts, interval=[], length=[3], kind="lax")
            ps.append(b.done())
    # an optional task and an unselected worker both live "in the past": strict sorts must not confuse them
    for cls, first in itertools.product(("ResourceTasksDistance", "ResourceNonDelay", "idle"), (0, 1, 2)):
        b = PB(4, tag="opt-past-points-" + cls)
        names = ["A", "B", "C"]
        order = names[first:] + names[:first]
        t = {}
        for n in order:
            t[n] = b.task(n, "F", dur=1, optional=(n == "A"))
        w1, w2 = b.worker("W1"), b.worker("W2")
        s_ = b.select("S", [w1, w2])
        b.require(t["A"], worker=w1)
        b.require(t["B"], select=s_)
        b.require(t["C"], worker=w1)
        if cls == "ResourceTasksDistance":
            b.con(cls, res=res_worker(w1), distance=1, mode="min", has_intervals=False, intervals=[])
        elif cls == "ResourceNonDelay":
            b.con(cls, res=res_worker(w1))
        else:
            b.ind("IndicatorResourceIdle", res=res_worker(w1))
        ps.append(b.done())
    # optional tasks with resource constraints
    for cls in ("ResourceUnavailable", "WorkLoad", "ResourceNonDelay", "ResourceTasksDistance"):
        b = PB(4, tag="opt-" + cls)
        a = b.task("A", "F", dur=2, optional=True)
        c = b.task("B", "F", dur=1)
        d = b.task("C", "F", dur=1, optional=True)
        w = b.worker("W")
        for t in (a, c, d):
            b.require(t, worker=w)
        r = res_worker(w)
        if cls == "ResourceUnavailable":
            b.con(cls, res=r, intervals=[[1, 2]])
        elif cls == "WorkLoad":
            b.con(cls, res=r, intervals=[[0, 2, 1]], kind="max")
        elif cls == "ResourceNonDelay":
            b.con(cls, res=r)
        else:
            b.con(cls, res=r, distance=1, mode="exact", has_intervals=False, intervals=[])
        ps.append(b.done())
    # an optional task whose assignment is shifted (delay_in / early_out): left out, it leaves no busy interval behind
    for (din, eout), ctx, opt2 in itertools.product([(1, 0), (0, 1), (1, 1), (2, 0)], ("plain", "nondelay", "cost", "unavailable"), (False, True)):
        b = PB(5, tag="opt-shifted")
        a = b.task("A", "F", dur=3, optional=True)
        c = b.task("B", "F", dur=1, optional=opt2)
        w = b.worker("W", cost=("lin", 1, 1) if ctx == "cost" else None)
        b.require(a, worker=w, delay_in=din, early_out=eout)
        b.require(c, worker=w)
        if ctx == "nondelay":
            b.con("ResourceNonDelay", res=res_worker(w))
        elif ctx == "unavailable":
            b.con("ResourceUnavailable", res=res_worker(w), intervals=[[0, 1]])
        elif ctx == "cost":
            b.ind("IndicatorResourceCost", ress=[res_worker(w)])
            b.ind("IndicatorResourceUtilization", res=res_worker(w))
            b.ind("IndicatorNumberTasksAssigned", res=res_worker(w))
        ps.append(b.done())
    # SameWorkers / DistinctWorkers between the selections of two tasks, one or both optional: a task that is left
    # out selects nobody
    for cls, opts, (n1, k1), (n2, k2) in itertools.product(("SameWorkers", "DistinctWorkers"), [(False, True), (True, True), (True, False)],
                                                           [(1, "exact"), (1, "min")], [(1, "exact"), (2, "max")]):
        b = PB(3, tag="opt-same-distinct")
        a = b.task("A", "F", dur=1, optional=opts[0])
        c = b.task("B", "F", dur=2, optional=opts[1])
        w1, w2 = b.worker("W1"), b.worker("W2")
        r1 = b.require(a, select=b.select("S1", [w1, w2], n=n1, kind=k1))
        r2 = b.require(c, select=b.select("S2", [w1, w2], n=n2, kind=k2))
        b.con(cls, r1=r1, r2=r2)
        ps.append(b.done())
    # single-task constraints whose bound is an expression over ANOTHER task (value: Union[int, z3.ArithRef]):
    # a constrained task that is left out binds nothing, whatever the expression evaluates to
    from problems import add, sub
    for cls, (k2, kw2), opts, ex in itertools.product(
            ("TaskStartAt", "TaskStartAfter", "TaskEndAt", "TaskEndBefore"), [("F", dict(dur=1)), ("V", dict(min=0, max=2))],
            [(True, False), (True, True), (False, True)], ("start", "end", "start+1", "end-1")):
        b = PB(4, tag="opt-symbolic-bound")
        a = b.task("A", "F", dur=1, optional=opts[0])
        c = b.task("B", k2, optional=opts[1], **kw2)
        e = {"start": start(c), "end": end(c), "start+1": add(start(c), const(1)), "end-1": sub(end(c), const(1))}[ex]
        f = dict(task=a, value=0, vexpr=e)
        if cls in ("TaskStartAfter", "TaskEndBefore"):
            f["kind"] = "lax"
        b.con(cls, **f)
        ps.append(b.done())
    if not full:
        ps = sample(rng, ps, 260)
    return number(ps)
