"""Problems whose solutions exercise the corner cases of reporting / exporting / drawing."""
from __future__ import annotations

import itertools
import random

from problems import PB, number, res_worker, res_cumul, start, end, sub
from families.tasks import sample


def fam_reports(tier, seed):
    rng = random.Random(seed + 11)
    full = tier == "thorough"
    ps = []
    cal = [(None, None), (900, "2024-01-01T08:00:00"), (86400, None), (1, "2024-03-10T00:00:00")]
    for (dt, st), shape in itertools.product(cal if full else cal[:3],
                                             ("workers", "cumulative", "optional", "zero", "dynamic", "buffer", "indicators", "plain")):
        b = PB(4, tag="report-" + shape, delta_time=dt, start_time=st)
        if shape == "workers":
            a = b.task("A", "F", dur=2)
            c = b.task("B", "V", min=1, max=2)
            w1, w2 = b.worker("W1"), b.worker("W2")
            s = b.select("S", [w1, w2], n=1, kind="min")
            b.require(a, select=s)
            b.require(c, worker=w1, delay_in=1)
            d = b.task("C", "F", dur=3)
            w3 = b.worker("W3")
            b.require(d, worker=w3, delay_in=0, early_out=2)
            b.require(d, worker=w2, delay_in=1, early_out=1)
        elif shape == "cumulative":
            a = b.task("A", "F", dur=2)
            c = b.task("B", "F", dur=2)
            d = b.task("C", "F", dur=1, optional=True)
            cu = b.cumul("M", 2)
            w = b.worker("W")
            for t in (a, c, d):
                b.require(t, cumul=cu)
            b.require(a, worker=w)
        elif shape == "optional":
            a = b.task("A", "F", dur=2, optional=True)
            c = b.task("B", "Z", optional=True)
            d = b.task("C", "V", min=0, max=1, optional=True)
            w = b.worker("W")
            for t in (a, c, d):
                b.require(t, worker=w)
        elif shape == "zero":
            a = b.task("A", "Z")
            c = b.task("B", "F", dur=2)
            d = b.task("C", "V", min=0, max=1)
            w = b.worker("W")
            for t in (a, c, d):
                b.require(t, worker=w)
        elif shape == "dynamic":
            a = b.task("A", "V", min=2, max=3, work=3)
            c = b.task("B", "F", dur=1)
            w1, w2 = b.worker("W1"), b.worker("W2")
            b.require(a, worker=w1)
            b.require(a, worker=w2, dynamic=True)
            b.require(c, worker=w2)
        elif shape == "buffer":
            a = b.task("A", "F", dur=1)
            c = b.task("B", "F", dur=2, optional=True)
            d = b.task("C", "Z")
            b1 = b.buffer("B1", concurrent=True, initial=2, lower=0)
            b2 = b.buffer("B2", concurrent=False, initial=0)
            b.unload(a, b1, 1)
            b.unload(c, b1, 1)
            b.load(d, b1, 2)
            b.load(a, b2, 3)
        elif shape == "indicators":
            a = b.task("A", "F", dur=2, due=2, deadline=False)
            c = b.task("B", "F", dur=1, due=3, deadline=False, optional=True)
            w = b.worker("W", cost=2)
            b.require(a, worker=w)
            b.require(c, worker=w)
            b.ind("IndicatorResourceCost", ress=[res_worker(w)])
            b.ind("IndicatorTardiness", tasks=[a, c])
            b.ind("IndicatorNumberTasksAssigned", res=res_worker(w))
            b.ind("IndicatorFromMathExpression", name="gap", expr=sub(start(c), end(a)))
        else:
            b.task("A", "F", dur=1)
            b.task("B", "V", min=0, max=2, optional=True)
        ps.append(b.done())
    # no user horizon + a buffer whose last change comes before the reported horizon (the curve runs up to that horizon)
    b = PB(5, user_horizon=False, tag="report-free-horizon-buffer")
    a = b.task("A", "F", dur=2)
    c = b.task("B", "F", dur=1)
    bf = b.buffer("Bf", initial=2, lower=0)
    b.unload(a, bf, 1)
    b.load(c, bf, 2)
    b.con("TaskPrecedence", before=c, after=a, offset=0, kind="lax")
    ps.append(dict(b.done(), keep=True))
    # two zero-length tasks of one worker at the same instant: both are reported, both are drawn
    b = PB(3, tag="report-two-markers")
    a = b.task("A", "Z")
    c = b.task("B", "Z")
    d = b.task("C", "F", dur=1)
    w = b.worker("W")
    for t in (a, c, d):
        b.require(t, worker=w)
    b.con("TasksStartSynced", t1=a, t2=c)
    ps.append(dict(b.done(), keep=True))
    # two tasks in either order (a disjunction of precedences), every returned schedule ends within the reported horizon
    from problems import o_con
    b = PB(5, tag="report-either-order")
    a = b.task("A", "F", dur=2)
    c = b.task("B", "F", dur=2)
    b.con("Or", xs=[o_con(b.con("TaskPrecedence", before=a, after=c, offset=0, kind="lax")),
                    o_con(b.con("TaskPrecedence", before=c, after=a, offset=0, kind="lax"))])
    ps.append(dict(b.done(), keep=True))
    # ... and the same with an objective that pushes the tasks to the right
    b.obj("ObjectiveTasksStartLatest", ind=b.ind("MinimumStartTime", name="MinimumStartTime", tasks=[a, c]), kind="maximize")
    ps.append(dict(b.done(), keep=True))
    # a milestone (zero-length task) that comes last, no user horizon, makespan minimised: the reported horizon covers it
    b = PB(5, user_horizon=False, tag="report-milestone-last")
    a = b.task("A", "F", dur=2)
    c = b.task("B", "Z")
    b.con("TaskPrecedence", before=a, after=c, offset=1, kind="lax")
    b.obj("ObjectiveMinimizeMakespan")
    ps.append(dict(b.done(), keep=True))
    # a cumulative worker of size 10, all its units in use (two-digit unit numbers in the generated names)
    b = PB(1, tag="report-cumulative-size-10")
    cu = b.cumul("M", 10)
    w = b.worker("Op")
    for i in range(10):
        t = b.task(f"T{i + 1}", "F", dur=1)
        b.require(t, cumul=cu)
    q = b.done()
    q["keep"] = True
    q["default_only"] = True
    ps.append(q)
    if not full:
        ps = sample(rng, ps, 23)
    return number(ps)
