"""Problem family for C10 (logical combinations, optional constraints, raw expressions)."""
from __future__ import annotations

import itertools
import random

from problems import PB, number, cmp, start, end, const, add, o_con, o_expr, b_sched, b_and, b_or, b_not
from families.tasks import sample

H = 3


def _atoms(b, a, c):
    """Operand makers: each returns an operand (creating the operand constraint when needed)."""
    return {
        "startAt": lambda: o_con(b.con("TaskStartAt", task=a, value=1)),
        "endBefore": lambda: o_con(b.con("TaskEndBefore", task=c, value=2, kind="lax")),
        "prec": lambda: o_con(b.con("TaskPrecedence", before=a, after=c, offset=0, kind="lax")),
        "sync": lambda: o_con(b.con("TasksStartSynced", t1=a, t2=c)),
        "dontoverlap": lambda: o_con(b.con("TasksDontOverlap", t1=a, t2=c)),
        "expr": lambda: o_expr(cmp("ge", start(c), add(start(a), const(1)))),
        "expr2": lambda: o_expr(cmp("eq", end(a), 2)),
    }


def _mk(b):
    a = b.task("A", "F", dur=1)
    c = b.task("B", "F", dur=2)
    return a, c


def fam_C10(tier, seed):
    rng = random.Random(seed + 10)
    full = tier == "thorough"
    ps = []
    names = ["startAt", "endBefore", "prec", "sync", "dontoverlap", "expr", "expr2"]
    cond = {"c1": lambda a, c: cmp("le", start(a), 1), "c2": lambda a, c: cmp("gt", end(c), 2)}
    # depth 1
    for n in names:
        b = PB(H, tag="Not")
        a, c = _mk(b)
        b.con("Not", x=_atoms(b, a, c)[n]())
        ps.append(b.done())
    for n1, n2 in itertools.combinations(names, 2):
        for cls in ("And", "Or", "Xor"):
            b = PB(H, tag=cls)
            a, c = _mk(b)
            at = _atoms(b, a, c)
            if cls == "Xor":
                b.con("Xor", x=at[n1](), y=at[n2]())
            else:
                b.con(cls, xs=[at[n1](), at[n2]()])
            ps.append(b.done())
    for n1, cn in itertools.product(names, cond):
        b = PB(H, tag="Implies")
        a, c = _mk(b)
        b.con("Implies", cond=cond[cn](a, c), xs=[_atoms(b, a, c)[n1]()])
        ps.append(b.done())
    for (n1, n2), cn in itertools.product(itertools.permutations(names[:5], 2), cond):
        b = PB(H, tag="IfThenElse")
        a, c = _mk(b)
        at = _atoms(b, a, c)
        b.con("IfThenElse", cond=cond[cn](a, c), xs=[at[n1]()], ys=[at[n2]()])
        ps.append(b.done())
    # depth 2
    d2 = []
    for outer, inner, (n1, n2), n3 in itertools.product(("Not", "And", "Or", "Xor"), ("Not", "And", "Or", "Xor"),
                                                        [("startAt", "prec"), ("sync", "expr"), ("endBefore", "dontoverlap")],
                                                        ("expr2", "startAt", "sync")):
        if n3 in (n1, n2):
            continue
        d2.append((outer, inner, n1, n2, n3))
    for (outer, inner, n1, n2, n3) in sample(rng, d2, None if full else 60):
        b = PB(H, tag=f"{outer}({inner})")
        a, c = _mk(b)
        at = _atoms(b, a, c)
        if inner == "Not":
            i = b.con("Not", x=at[n1]())
        elif inner == "Xor":
            i = b.con("Xor", x=at[n1](), y=at[n2]())
        else:
            i = b.con(inner, xs=[at[n1](), at[n2]()])
        if outer == "Not":
            b.con("Not", x=o_con(i))
        elif outer == "Xor":
            b.con("Xor", x=o_con(i), y=at[n3]())
        else:
            b.con(outer, xs=[o_con(i), at[n3]()])
        ps.append(b.done())
    # depth 3: seeded random trees over all six connectives (Implies / IfThenElse as inner nodes too), some of them
    # declared optional; every leaf is a fresh operand constraint or a raw expression
    def tree(b, a, c, depth, top=False):
        at = _atoms(b, a, c)
        if depth == 0:
            return at[rng.choice(names)]()
        cls = rng.choice(("Not", "And", "Or", "Xor", "Implies", "IfThenElse"))
        sub = lambda: tree(b, a, c, depth - 1 if rng.random() < 0.8 else 0)
        kw = {"optional": True} if (top and rng.random() < 0.25) else {}
        if cls == "Not":
            i = b.con("Not", x=sub(), **kw)
        elif cls == "Xor":
            i = b.con("Xor", x=sub(), y=sub(), **kw)
        elif cls in ("And", "Or"):
            i = b.con(cls, xs=[sub() for _ in range(rng.choice((2, 2, 3)))], **kw)
        elif cls == "Implies":
            i = b.con("Implies", cond=cond[rng.choice(sorted(cond))](a, c), xs=[sub() for _ in range(rng.choice((1, 2)))], **kw)
        else:
            i = b.con("IfThenElse", cond=cond[rng.choice(sorted(cond))](a, c), xs=[sub()], ys=[sub() for _ in range(rng.choice((1, 2)))], **kw)
        return i if top else o_con(i)
    for _ in range(150 if full else 30):
        b = PB(H, tag="depth-3")
        a, c = _mk(b)
        tree(b, a, c, 3, top=True)
        if rng.random() < 0.3:
            tree(b, a, c, 2, top=True)
        ps.append(dict(b.done(), keep=True))
    # ONE constraint used as an operand twice (And / Implies / IfThenElse list first, then again elsewhere): each use
    # sees the operand's own meaning
    for first, again, (n1, n2) in itertools.product(("And", "Implies", "IfThenElse"), ("Not", "Implies", "Or"),
                                                    [("startAt", "endBefore"), ("prec", "sync"), ("endBefore", "dontoverlap")]):
        b = PB(H, tag="shared-operand")
        a, c = _mk(b)
        at = _atoms(b, a, c)
        o1, o2 = at[n1](), at[n2]()
        if first == "And":
            b.con("Or", xs=[o_con(b.con("And", xs=[o1, o2])), at["expr2"]()])
        elif first == "Implies":
            b.con("Implies", cond=cond["c1"](a, c), xs=[o1, o2])
        else:
            b.con("IfThenElse", cond=cond["c2"](a, c), xs=[o1, o2], ys=[at["expr"]()])
        if again == "Not":
            b.con("Not", x=o1)
        elif again == "Implies":
            b.con("Implies", cond=cond["c2"](a, c), xs=[o1])
        else:
            b.con("Or", xs=[o1, at["expr2"]()])
        ps.append(dict(b.done(), keep=True))
    # a condition given as a plain Python bool (documented type: Union[z3.BoolRef, bool])
    for cv, n1, n2 in itertools.product(("pytrue", "pyfalse"), ("startAt", "prec", "expr2"), ("endBefore", "sync")):
        b = PB(H, tag="Implies-bool")
        a, c = _mk(b)
        b.con("Implies", cond={"op": cv}, xs=[_atoms(b, a, c)[n1]()])
        ps.append(b.done())
        b = PB(H, tag="IfThenElse-bool")
        a, c = _mk(b)
        at = _atoms(b, a, c)
        b.con("IfThenElse", cond={"op": cv}, xs=[at[n1]()], ys=[at[n2]()])
        ps.append(b.done())
    # operands whose encoding is SEVERAL assertions / introduces auxiliary variables (contiguity, groups,
    # N tasks in time intervals): the connective must combine the operands, not their individual assertions
    multi = {
        "contig": lambda b, a, c: o_con(b.con("TasksContiguous", tasks=[a, c])),
        "ugroup": lambda b, a, c: o_con(b.con("UnorderedTaskGroup", tasks=[a, c], interval=[[0, 2]], length=[])),
        "ogroup": lambda b, a, c: o_con(b.con("OrderedTaskGroup", tasks=[a, c], interval=[], length=[3], kind="lax")),
        "nin": lambda b, a, c: o_con(b.con("ScheduleNTasksInTimeIntervals", tasks=[a, c], n=1, kind="exact", intervals=[[0, 2]])),
        "nin2": lambda b, a, c: o_con(b.con("ScheduleNTasksInTimeIntervals", tasks=[a, c], n=2, kind="max", intervals=[[0, 1], [1, 3]])),
    }
    for mn, n2, cls in itertools.product(multi, ("startAt", "endBefore", "expr"), ("Not", "And", "Or", "Xor", "Implies", "IfThenElse")):
        if cls == "Not" and n2 != "startAt":
            continue
        b = PB(H, tag=cls + "-multi")
        a, c = _mk(b)
        at = _atoms(b, a, c)
        m = multi[mn](b, a, c)
        if cls == "Not":
            b.con("Not", x=m)
        elif cls == "Xor":
            b.con("Xor", x=m, y=at[n2]())
        elif cls in ("And", "Or"):
            b.con(cls, xs=[at[n2](), m])
        elif cls == "Implies":
            b.con("Implies", cond=cond["c1"](a, c), xs=[m])
        else:
            b.con("IfThenElse", cond=cond["c2"](a, c), xs=[m], ys=[at[n2]()])
        ps.append(b.done())
    # a combination next to the same operand class asserted on its own elsewhere
    b = PB(H, tag="operand-not-leaked")
    a, c = _mk(b)
    b.con("Not", x=o_con(b.con("TaskStartAt", task=a, value=0)))
    b.con("TaskEndBefore", task=c, value=3, kind="lax")
    ps.append(b.done())
    # optional constraints and ForceApplyN
    base = [("TaskStartAt", dict(value=1)), ("TaskEndAt", dict(value=2)), ("TaskStartAfter", dict(value=2, kind="lax"))]
    for k in (1, 2, 3):
        for subset in itertools.combinations(range(3), k):
            b = PB(H, tag="optional-constraints")
            a, c = _mk(b)
            for i in subset:
                cls, kw = base[i]
                b.con(cls, task=a if i != 1 else c, optional=True, **kw)
            ps.append(b.done())
            for n, kind in itertools.product(range(1, k + 1), ("exact", "min", "max")):
                b = PB(H, tag="ForceApplyN")
                a, c = _mk(b)
                idx = []
                for i in subset:
                    cls, kw = base[i]
                    idx.append(b.con(cls, task=a if i != 1 else c, optional=True, **kw))
                b.con("ForceApplyNOptionalConstraints", cons=idx, n=n, kind=kind)
                ps.append(b.done())
    # optional two-task / resource constraints
    b = PB(H, tag="optional-constraints")
    a, c = _mk(b)
    b.con("TaskPrecedence", before=c, after=a, offset=0, kind="lax", optional=True)
    b.con("TasksStartSynced", t1=a, t2=c, optional=True)
    ps.append(b.done())
    b = PB(4, tag="optional-constraints")
    a, c = _mk(b)
    w = b.worker("W")
    b.require(a, worker=w)
    b.require(c, worker=w)
    from problems import res_worker
    b.con("ResourceUnavailable", res=res_worker(w), intervals=[[1, 3]], optional=True)
    b.con("WorkLoad", res=res_worker(w), intervals=[[0, 2, 1]], kind="max", optional=True)
    ps.append(b.done())
    # optional user expressions and optional connectives
    for k, kind, n in [(2, "exact", 1), (3, "exact", 1), (3, "min", 2), (3, "max", 1)]:
        b = PB(H, tag="optional-expressions")
        a, c = _mk(b)
        idx = [b.con("ConstraintFromExpression", expr=cmp("eq", start(a), v), optional=True) for v in range(k)]
        b.con("ForceApplyNOptionalConstraints", cons=idx, n=n, kind=kind)
        ps.append(b.done())
    b = PB(H, tag="optional-expressions")
    a, c = _mk(b)
    b.con("TaskStartAt", task=a, value=0)
    b.con("ConstraintFromExpression", expr=cmp("eq", start(a), 2), optional=True)
    ps.append(b.done())
    for cls in ("Not", "And", "Or", "Xor", "Implies", "IfThenElse"):
        b = PB(H, tag="optional-connective")
        a, c = _mk(b)
        at = _atoms(b, a, c)
        b.con("TaskStartAt", task=a, value=0)
        if cls == "Not":
            b.con("Not", x=at["expr2"](), optional=True)
        elif cls == "Xor":
            b.con("Xor", x=at["startAt"](), y=at["sync"](), optional=True)
        elif cls in ("And", "Or"):
            b.con(cls, xs=[at["startAt"](), at["endBefore"]()], optional=True)
        elif cls == "Implies":
            b.con("Implies", cond=cmp("le", start(a), 1), xs=[at["startAt"]()], optional=True)
        else:
            b.con("IfThenElse", cond=cmp("le", start(a), 1), xs=[at["startAt"]()], ys=[at["sync"]()], optional=True)
        ps.append(b.done())
    # raw expressions
    for e in (lambda a, c: cmp("eq", add(start(a), start(c)), 2),
              lambda a, c: b_or(cmp("lt", end(a), start(c)), cmp("ge", start(a), end(c))),
              lambda a, c: b_not(cmp("eq", start(a), start(c))),
              lambda a, c: b_and(cmp("ge", start(a), 1), cmp("ne", end(c), 3))):
        b = PB(H, tag="ConstraintFromExpression")
        a, c = _mk(b)
        b.con("ConstraintFromExpression", expr=e(a, c))
        ps.append(b.done())
    if not full:
        ps = sample(rng, ps, 240)
    return number(ps)
