"""Problem family for C08 (indicators)."""
from __future__ import annotations

import itertools
import random

from problems import PB, number, res_worker, res_cumul, cmp, start, end, const, add, sub, mul
from families.tasks import sample


def fam_C08(tier, seed):
    rng = random.Random(seed + 8)
    full = tier == "thorough"
    ps = []
    # resource indicators: utilisation, number of tasks, cost, idle -- several horizons
    for H, cost, sel, opt in itertools.product((3, 4, 6, 7), (None, 0, 1, 3, ("lin", 1, 0), ("lin", 2, 1), ("lin", 0, 2),
                                                                ("poly", 1, 0, 2), ("poly", 2, 0, 1, 3), ("poly", 1, 1), ("poly", 0, 3, 1)),
                                               (False, True), (False, True)):
        b = PB(H, tag="resource-indicators")
        a = b.task("A", "F", dur=2)
        c = b.task("B", "V", min=1, max=2, optional=opt)
        w = b.worker("W", cost=cost)
        if sel:
            w2 = b.worker("W2", cost=2)
            s = b.select("S", [w, w2])
            b.require(a, select=s)
        else:
            b.require(a, worker=w)
        b.require(c, worker=w)
        r = res_worker(w)
        b.ind("IndicatorResourceUtilization", res=r)
        b.ind("IndicatorNumberTasksAssigned", res=r)
        b.ind("IndicatorResourceCost", ress=[r] + ([res_worker(w2)] if sel else []))
        b.ind("IndicatorResourceIdle", res=r)
        ps.append(b.done())
    # task indicators
    for H, (d1, d2), opt, dl in itertools.product((4, 5), [(1, 3), (2, 2), (0, 4)], (False, True), (False,)):
        b = PB(H, tag="task-indicators")
        a = b.task("A", "F", dur=2, due=d1, deadline=dl)
        c = b.task("B", "F", dur=1, due=d2, deadline=dl, optional=opt)
        w = b.worker("W")
        b.require(a, worker=w)
        b.require(c, worker=w)
        b.ind("IndicatorTardiness", tasks=[a, c])
        b.ind("IndicatorEarliness", tasks=[a, c])
        b.ind("IndicatorNumberOfTardyTasks", tasks=[a, c])
        b.ind("IndicatorMaximumLateness", tasks=[a, c])
        ps.append(b.done())
    # user expressions
    for e in (lambda a, c: sub(start(c), end(a)), lambda a, c: add(mul(2, start(a)), end(c)),
              lambda a, c: end(a)):
        b = PB(4, tag="expression-indicator")
        a = b.task("A", "F", dur=1)
        c = b.task("B", "V", min=1, max=2)
        b.ind("IndicatorFromMathExpression", name="E", expr=e(a, c))
        ps.append(b.done())
    # buffer level extrema
    for conc in (False, True):
        b = PB(4, tag="buffer-indicators")
        bf = b.buffer("Bf", concurrent=conc, initial=1, lower=0)
        a = b.task("A", "F", dur=1)
        c = b.task("B", "F", dur=2)
        b.unload(a, bf, 1)
        b.load(c, bf, 2)
        b.ind("IndicatorMaxBufferLevel", buffer=bf)
        b.ind("IndicatorMinBufferLevel", buffer=bf)
        ps.append(b.done())
    # indicators created by the built-in objectives
    for ocls, icls, iname in [("ObjectiveMinimizeFlowtime", "Flowtime", "Flowtime"),
                              ("ObjectivePriorities", "TotalPriority", "TotalPriority"),
                              ("ObjectiveTasksStartEarliest", "WeightedStartTimes", "WeightedStartTimes"),
                              ("ObjectiveTasksStartLatest", "MinimumStartTime", "MinimumStartTime"),
                              ("ObjectiveMinimizeGreatestStartTime", "GreatestStartTime", "GreatestStartTime")]:
        for opt, pr in itertools.product((False, True), (1, 3)):
            b = PB(4, tag="objective-indicators")
            a = b.task("A", "F", dur=2, priority=pr)
            c = b.task("B", "F", dur=1, optional=opt)
            w = b.worker("W")
            b.require(a, worker=w)
            b.require(c, worker=w)
            i = b.ind(icls, name=iname, tasks=[a, c])
            b.obj(ocls, ind=i)
            ps.append(b.done())
    # objective-created indicators over a SUBSET of the tasks
    for ocls, icls in [("ObjectiveMinimizeFlowtime", "Flowtime"), ("ObjectiveTasksStartLatest", "MinimumStartTime"),
                       ("ObjectiveMinimizeGreatestStartTime", "GreatestStartTime")]:
        b = PB(4, tag="objective-indicators-subset")
        a = b.task("A", "F", dur=2)
        c = b.task("B", "F", dur=1)
        d = b.task("C", "F", dur=1)
        w = b.worker("W")
        for t in (a, c, d):
            b.require(t, worker=w)
        i = b.ind(icls, name=icls, tasks=[a, d])
        b.obj(ocls, ind=i, kind="maximize" if icls == "MinimumStartTime" else "minimize")
        ps.append(b.done())
    # total cost over SEVERAL resources with time-dependent costs (the halves of the trapeze areas add up before rounding)
    for (c1, c2, c3), H in itertools.product([(("lin", 3, 10), ("lin", 3, 10), ("lin", 1, 0)), (("lin", 1, 0), ("lin", 1, 1), ("poly", 1, 0, 1)),
                                              (("lin", 1, 0), ("lin", 3, 0), 2)], (4, 5)):
        b = PB(H, tag="cost-several-resources")
        ws = [b.worker(f"W{i + 1}", cost=c) for i, c in enumerate((c1, c2, c3))]
        ts = [b.task("ABC"[i], "F", dur=d) for i, d in enumerate((3, 1, 1))]
        for t, w in zip(ts, ws):
            b.require(t, worker=w)
        b.ind("IndicatorResourceCost", ress=[res_worker(w) for w in ws])
        b.ind("IndicatorResourceCost", ress=[res_worker(ws[0]), res_worker(ws[1])])
        ps.append(b.done())
    # utilisation WITHOUT a user horizon: the percentage is relative to the horizon the solution reports; a target on
    # the utilisation makes the horizon differ from the end of the last task
    for d1, tgt, opt in itertools.product((1, 2), (None, 25, 50, 100), (False, True)):
        b = PB(5, user_horizon=False, tag="utilisation-free-horizon")
        a = b.task("A", "F", dur=d1)
        c = b.task("B", "F", dur=1, optional=opt)
        w = b.worker("W")
        b.require(a, worker=w)
        b.require(c, worker=w)
        i = b.ind("IndicatorResourceUtilization", res=res_worker(w))
        b.ind("IndicatorNumberTasksAssigned", res=res_worker(w))
        if tgt is not None:
            b.con("IndicatorTarget", ind=i, value=tgt)
        ps.append(b.done())
    # the same indicators on a cumulative worker (tasks counted once, cost spread over the units)
    for H, cost, size, opt in itertools.product((4, 5), (None, 2, 3), (2, 3), (False, True)):
        b = PB(H, tag="cumulative-indicators")
        a = b.task("A", "F", dur=2)
        c = b.task("B", "V", min=1, max=2, optional=opt)
        m = b.cumul("M", size, cost=cost)
        b.require(a, cumul=m)
        b.require(c, cumul=m)
        b.ind("IndicatorNumberTasksAssigned", res=res_cumul(m))
        b.ind("IndicatorResourceCost", ress=[res_cumul(m)])
        ps.append(b.done())
    # flow time of one resource inside a window (ObjectiveMinimizeFlowtimeSingleResource)
    for win, opt, sel in itertools.product((None, (0, 3), (1, 4), (2, 5), (4, 5)), (False, True), (False, True)):
        b = PB(5, tag="flowtime-single-resource")
        a = b.task("A", "F", dur=2)
        c = b.task("B", "F", dur=1, optional=opt)
        w = b.worker("W")
        if sel:
            w2 = b.worker("W2")
            b.require(a, select=b.select("S", [w, w2]))
        else:
            b.require(a, worker=w)
        b.require(c, worker=w)
        lo, hi = win or (0, 5)
        i = b.ind("FlowtimeSingleResource", name=f"FlowTimeSingleResource(W:{lo}:{hi if win else 'horizon'})",
                  res=res_worker(w), lo=lo, hi=hi, whole=win is None)
        b.obj("ObjectiveMinimizeFlowtimeSingleResource", ind=i)
        ps.append(b.done())
    # a buffer that is only loaded: its minimum level is the initial one
    for conc in (False, True):
        b = PB(4, tag="buffer-indicators")
        bf = b.buffer("Bf", concurrent=conc, initial=1)
        a = b.task("A", "F", dur=1)
        c = b.task("B", "F", dur=2)
        b.load(a, bf, 2)
        b.load(c, bf, 1)
        b.ind("IndicatorMaxBufferLevel", buffer=bf)
        b.ind("IndicatorMinBufferLevel", buffer=bf)
        ps.append(b.done())
    # indicator targets and bounds
    for kind, val in itertools.product(("target", "lower", "upper", "both"), (0, 1, 2)):
        b = PB(4, tag="indicator-constraints")
        a = b.task("A", "F", dur=2)
        c = b.task("B", "F", dur=1)
        w = b.worker("W")
        b.require(a, worker=w)
        b.require(c, worker=w)
        i = b.ind("IndicatorResourceIdle", res=res_worker(w))
        j = b.ind("IndicatorFromMathExpression", name="E", expr=sub(start(c), start(a)))
        if kind == "target":
            b.con("IndicatorTarget", ind=i, value=val)
        elif kind == "lower":
            b.con("IndicatorBounds", ind=j, lower=[val], upper=[])
        elif kind == "upper":
            b.con("IndicatorBounds", ind=j, lower=[], upper=[val])
        else:
            b.con("IndicatorBounds", ind=i, lower=[val], upper=[val + 1])
        ps.append(b.done())
    if not full:
        ps = sample(rng, ps, 120)
    return number(ps)
