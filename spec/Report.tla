------------------------------- MODULE Report -------------------------------
(***************************************************************************)
(* Reporting, exporting and drawing a schedule (properties C11, C16, C17). *)
(*                                                                         *)
(* Pure reference functions over an abstract schedule S of a problem P     *)
(* (the projection of the z3 model) and over the solution record `sol`     *)
(* the implementation built from it.  These are self-contained case        *)
(* analyses (cumulative-name folding, de-duplication, merge range vs       *)
(* single cell, zero-length markers, calendar arithmetic) transcribed      *)
(* from docs/gantt_chart.md, docs/data_exchange.md and the statements of   *)
(* C11, C16, C17.  ReportTrace evaluates them on every record the harness  *)
(* extracts from the real library.  All coordinates are integers           *)
(* (hundredths for the Gantt chart, seconds for calendar times).           *)
(***************************************************************************)
EXTENDS Problem, TLC, SequencesExt

\* ---- C11: what the solution object must say about S ----------------------
ResNameOfWorker(p, w) == IF p.workers[w].cumul = 0 THEN p.workers[w].name
                         ELSE p.cumuls[p.workers[w].cumul].name
ResNames(p) == { ResNameOfWorker(p, w) : w \in Workers(p) }
UsedUses(p, S) == { u \in Uses(p) : S.used[u] }
ExpAssignments(p, S, r) ==
  { <<p.tasks[p.uses[u].task].name, S.bs[u], S.be[u]>> :
       u \in { v \in UsedUses(p, S) : ResNameOfWorker(p, p.uses[v].worker) = r } }
ExpAssigned(p, S, t) == { ResNameOfWorker(p, p.uses[u].worker) : u \in { v \in UsedUses(p, S) : p.uses[v].task = t } }

SolTask(sol, name) == CHOOSE x \in SeqToSet(sol.tasks) : x.name = name
SolRes(sol, name)  == CHOOSE x \in SeqToSet(sol.resources) : x.name = name
HasRes(sol, name)  == \E x \in SeqToSet(sol.resources) : x.name = name
AssignSet(r) == { <<r.assignments[i][1], r.assignments[i][2], r.assignments[i][3]>> : i \in 1..Len(r.assignments) }

C11Clauses(p, S, sol) ==
  { <<"R11_all_tasks_reported", { sol.tasks[i].name : i \in 1..Len(sol.tasks) } = { p.tasks[t].name : t \in Tasks(p) }
                                  /\ Len(sol.tasks) = Len(p.tasks)>> }
  \cup
  UNION { LET ts == SolTask(sol, p.tasks[t].name) IN
          { <<"R11_scheduled_flag:" \o p.tasks[t].name, ts.scheduled = S.sched[t]>>,
            <<"R11_times:" \o p.tasks[t].name, S.sched[t] => (ts.start = S.s[t] /\ ts.end = S.e[t])>>,
            <<"R11_end_minus_start_is_duration:" \o p.tasks[t].name, ts.scheduled => ts.end - ts.start = ts.duration>>,
            <<"R11_assigned_resources:" \o p.tasks[t].name,
                SeqToSet(ts.assigned) = (IF S.sched[t] THEN ExpAssigned(p, S, t) ELSE {})
                /\ Cardinality(SeqToSet(ts.assigned)) = Len(ts.assigned)>>,
            <<"R11_task_lists_resource_iff_resource_lists_task:" \o p.tasks[t].name,
                \A r \in ResNames(p) :
                   (r \in SeqToSet(ts.assigned)) <=>
                   (HasRes(sol, r) /\ \E a \in AssignSet(SolRes(sol, r)) : a[1] = ts.name)>>,
            <<"R11_unscheduled_has_no_assignment:" \o p.tasks[t].name,
                ~ts.scheduled => (Len(ts.assigned) = 0 /\
                                  \A i \in 1..Len(sol.resources) : \A a \in AssignSet(sol.resources[i]) : a[1] # ts.name)>>,
            <<"R11_horizon_not_before_end:" \o p.tasks[t].name, ts.scheduled => ts.end <= sol.horizon>>,
            <<"R11_calendar_times:" \o p.tasks[t].name,
                (Len(p.delta_time) > 0 /\ ts.scheduled) =>
                   /\ ts.dt = <<ts.duration * p.delta_time[1]>>
                   /\ ts.st = <<ts.start * p.delta_time[1]>>       \* seconds after the problem's start_time
                   /\ ts.et = <<ts.end * p.delta_time[1]>>>> }
        : t \in Tasks(p) }
  \cup
  { <<"R11_assignment_interval_is_the_one_the_requirement_implies:" \o p.workers[p.uses[u].worker].name \o "/" \o p.tasks[p.uses[u].task].name,
      LET t == p.uses[u].task IN
      IF p.uses[u].dynamic THEN S.s[t] <= S.bs[u] /\ S.bs[u] <= S.be[u] /\ S.be[u] <= S.e[t]
      ELSE S.bs[u] = S.s[t] + p.uses[u].delay_in /\ S.be[u] = S.e[t] - p.uses[u].early_out>> : u \in UsedUses(p, S) }
  \cup
  { <<"R11_resources_under_their_own_name", { sol.resources[i].name : i \in 1..Len(sol.resources) } = ResNames(p)
                                              /\ Len(sol.resources) = Cardinality(ResNames(p))>> }
  \cup
  { <<"R11_assignments:" \o r,
      HasRes(sol, r) => (AssignSet(SolRes(sol, r)) = ExpAssignments(p, S, r)
                         /\ Cardinality(AssignSet(SolRes(sol, r))) = Len(SolRes(sol, r).assignments))>> : r \in ResNames(p) }

\* ---- C16: exports reproduce the solution object -------------------------
\* a parsed task row: [name, start, end, duration, scheduled, assigned]
TaskRowOf(ts) == [name |-> ts.name, start |-> ts.start, end |-> ts.end, duration |-> ts.duration,
                  scheduled |-> ts.scheduled, assigned |-> ts.assigned]
TaskRows(sol) == [i \in 1..Len(sol.tasks) |-> TaskRowOf(sol.tasks[i])]

\* Excel: a drawn item is <<row, first column, last column, text>> (0-based row/col as in the workbook)
XlsxItem(row, s, e, text) == IF e - s > 1 THEN <<row, s + 1, e, text>> ELSE <<row, s + 1, s + 1, text>>
RECURSIVE JoinComma(_)
JoinComma(q) == IF Len(q) = 0 THEN "" ELSE IF Len(q) = 1 THEN q[1] ELSE q[1] \o "," \o JoinComma(Tail(q))
XlsxResourceItems(sol) ==
  UNION { { XlsxItem(i, sol.resources[i].assignments[k][2], sol.resources[i].assignments[k][3],
                     sol.resources[i].assignments[k][1]) : k \in 1..Len(sol.resources[i].assignments) }
          : i \in 1..Len(sol.resources) }
\* (a task that is not scheduled has no place on the time axis: nothing is drawn on its row)
XlsxTaskItems(sol) ==
  { XlsxItem(i, sol.tasks[i].start, sol.tasks[i].end, JoinComma(sol.tasks[i].assigned)) :
       i \in { k \in 1..Len(sol.tasks) : sol.tasks[k].scheduled } }

C16Clauses(sol, ex) ==
  { <<"R16_json_tasks", ex.json.tasks = TaskRows(sol)>>,
    <<"R16_json_calendar", \A i \in 1..Len(sol.tasks) :
          ex.json.times[i] = <<sol.tasks[i].st, sol.tasks[i].et, sol.tasks[i].dt>>>>,
    <<"R16_json_resources", ex.json.resources = sol.resources>>,
    <<"R16_json_buffers", ex.json.buffers = sol.buffers>>,
    <<"R16_json_indicators", ex.json.indicators = sol.indicators>>,
    <<"R16_json_horizon", ex.json.horizon = sol.horizon>>,
    <<"R16_json_compact_is_the_same_document", Len(ex.json_compact_diff) = 0>>,
    <<"R16_xlsx_with_colours_holds_the_same_items", Len(ex.xlsx_colors_diff) = 0>>,
    <<"R16_exporting_again_gives_the_same_table", Len(ex.export_again_diff) = 0>>,
    <<"R16_csv_rows", ex.csv = TaskRows(sol)>>,
    <<"R16_dataframe_rows", ex.df = TaskRows(sol)>>,
    <<"R16_xlsx_resource_names", ex.xlsx.resource_names = [i \in 1..Len(sol.resources) |-> sol.resources[i].name]>>,
    <<"R16_xlsx_resource_items", SeqToSet(ex.xlsx.resource_items) = XlsxResourceItems(sol)>>,
    <<"R16_xlsx_every_assignment_has_its_cell",
        Len(ex.xlsx.resource_items) = SumF([i \in 1..Len(sol.resources) |-> Len(sol.resources[i].assignments)], 1..Len(sol.resources))>>,
    <<"R16_xlsx_task_names", ex.xlsx.task_names = [i \in 1..Len(sol.tasks) |-> sol.tasks[i].name]>>,
    <<"R16_xlsx_task_items", SeqToSet(ex.xlsx.task_items) = { x \in XlsxTaskItems(sol) : TRUE }>>,
    <<"R16_xlsx_indicators", ex.xlsx.indicators = [i \in 1..Len(sol.indicators) |-> <<sol.indicators[i].name, sol.indicators[i].value>>]>> }

\* ---- C17: the Gantt chart -------------------------------------------------
\* a bar is <<row, x0, x1>> in hundredths; a zero-length item is a marker centred on its instant
Bar(row, s, e) == IF e = s THEN <<row, 100 * s - 5, 100 * s + 5>> ELSE <<row, 100 * s, 100 * e>>
BagOf(q) == IF Len(q) = 0 THEN <<>> ELSE SortSeq(q, LAMBDA a, b :
              a[1] < b[1] \/ (a[1] = b[1] /\ a[2] < b[2]) \/ (a[1] = b[1] /\ a[2] = b[2] /\ a[3] < b[3]))
ResourceBars(sol) ==
  LET rows == [i \in 1..Len(sol.resources) |->
                 [k \in 1..Len(sol.resources[i].assignments) |->
                    Bar(i - 1, sol.resources[i].assignments[k][2], sol.resources[i].assignments[k][3])]]
  IN  FlattenSeq(rows)
SchedTasks(sol) == SelectSeq(sol.tasks, LAMBDA ts : ts.scheduled)
TaskBars(sol) == [i \in 1..Len(SchedTasks(sol)) |-> Bar(i - 1, SchedTasks(sol)[i].start, SchedTasks(sol)[i].end)]

\* the step function of a buffer: segments <<x0, x1, level>> (hundredths not needed: integers)
BufferSegments(b, horizon) ==
  LET xs == <<0>> \o b.times \o <<horizon>>
  IN  [i \in 1..Len(b.levels) |-> <<xs[i], xs[i + 1], b.levels[i]>>]

C17Clauses(sol, g) ==
  { <<"R17_resource_rows", g.res.ylabels = (IF Len(sol.resources) > 0 THEN [i \in 1..Len(sol.resources) |-> sol.resources[i].name]
                                                 \* no resource at all: the chart falls back to the task view
                                                 ELSE [i \in 1..Len(SchedTasks(sol)) |-> SchedTasks(sol)[i].name])>>,
    <<"R17_resource_bars", BagOf(g.res.bars) = BagOf(IF Len(sol.resources) > 0 THEN ResourceBars(sol) ELSE TaskBars(sol))>>,
    <<"R17_task_rows", g.task.ylabels = [i \in 1..Len(SchedTasks(sol)) |-> SchedTasks(sol)[i].name]>>,
    <<"R17_task_bars", BagOf(g.task.bars) = BagOf(TaskBars(sol))>>,
    <<"R17_buffer_steps", Len(g.buffers) = Len(sol.buffers) /\ \A i \in 1..Len(sol.buffers) :
          g.buffers[i] = BufferSegments(sol.buffers[i], sol.horizon)>>,
    <<"R17_nothing_else_on_the_gantt_axes", g.res.extra_lines = 0 /\ g.task.extra_lines = 0>>,
    \* drawing the same solution again, the first figure still open, gives the same chart
    <<"R17_redrawing_gives_the_same_chart", Len(g.res.redraw_diff) = 0 /\ Len(g.task.redraw_diff) = 0>>,
    <<"R17_buffer_count", Len(g.buffers) = Len(sol.buffers)>> }
=============================================================================
