SPECIFICATION Spec
CONSTANTS
  Mode = "probe"
CHECK_DEADLOCK FALSE
PROPERTY RejectedLeavesNoTrace
PROPERTY AcceptedIsRegistered
INVARIANT Emit
