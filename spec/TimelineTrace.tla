--------------------------- MODULE TimelineTrace ---------------------------
(***************************************************************************)
(* Trace validation: is a schedule reported by the IMPLEMENTATION a        *)
(* complete behaviour of Timeline?                                         *)
(*                                                                         *)
(* $TRACE_FILE holds a JSON list of traces.  A trace names its problem     *)
(* (index into $PROBLEMS_FILE) and carries                                 *)
(*   sched    per task, the reported scheduled flag                        *)
(*   lv0      per buffer, the first reported level                         *)
(*   instants a list of [t |-> instant, ev |-> list of events]; the order  *)
(*            of the events inside an instant is NOT logged, TLC searches  *)
(*            it; silent Ticks are bounded by the next logged instant      *)
(*   fin      what the implementation reported at the end: buffer          *)
(*            histories, indicator values, horizon                         *)
(* Events:  [k |-> "start", task, picks (uses on plain workers)]           *)
(*          [k |-> "end", task]   [k |-> "acquire"|"join"|"leave"|         *)
(*          "release", use]                                                *)
(* What is not logged is inferred by TLC from the specification's own      *)
(* nondeterminism: which unit of a cumulative worker serves a task, which  *)
(* optional constraints are applied.                                       *)
(*                                                                         *)
(* Verdicts are total: when no logged event is enabled the Reject step     *)
(* records the names of the guard clauses that are false.  A trace is      *)
(* accepted iff some interleaving reaches Accept.                          *)
(***************************************************************************)
EXTENDS Timeline, TLCExt

Traces == JsonDeserialize(IOEnv.TRACE_FILE)

VARIABLES tid, pos, rem, verdict, why

tvars == <<vars, tid, pos, rem, verdict, why>>

Tr == Traces[tid]
NInst == Len(Tr.instants)
EvAt(i) == IF i >= 1 /\ i <= NInst THEN 1..Len(Tr.instants[i].ev) ELSE {}
Ev(j) == Tr.instants[pos].ev[j]

\* uses whose choice is logged (plain workers); units of cumulative workers are inferred
Logged(u) == P.workers[P.uses[u].worker].cumul = 0

TraceInit ==
  /\ tid \in 1..Len(Traces)
  /\ pid = Tr.pid
  /\ now = 0 /\ last = 0 /\ fin = FALSE
  /\ sched = [t \in T |-> Tr.sched[t]]
  /\ ap \in { f \in [C -> BOOLEAN] : \A c \in C : ~P.cons[c].optional => f[c] }
  /\ st = [t \in T |-> IF sched[t] THEN "pending" ELSE "skipped"]
  /\ ts = [t \in T |-> -1] /\ te = [t \in T |-> -1]
  /\ prog = [t \in T |-> 0] /\ work = [t \in T |-> 0]
  /\ ust = [u \in U |-> IF sched[P.uses[u].task] THEN "idle" ELSE "unused"]
  /\ ubs = [u \in U |-> -1] /\ ube = [u \in U |-> -1]
  /\ flash = {}
  /\ lv0 = [b \in B |-> Tr.lv0[b]]
  /\ level = lv0
  /\ cnt = [b \in B |-> 0]
  /\ hist = [b \in B |-> <<>>]
  /\ load = [c \in WorkLoadCons |-> [i \in 1..Len(P.cons[c].intervals) |-> 0]]
  /\ pos = IF NInst >= 1 /\ Tr.instants[1].t = 0 THEN 1 ELSE 0
  /\ rem = EvAt(pos)
  /\ verdict = "" /\ why = {}

Live == verdict = ""
Consume(j) == rem' = rem \ {j} /\ UNCHANGED <<tid, pos, verdict, why>>

TStart ==
  \E j \in rem : Ev(j).k = "start" /\
     \E pk \in PickSets(Ev(j).task) :
        /\ { u \in pk : Logged(u) } = SeqToSet(Ev(j).picks)
        /\ Start(Ev(j).task, pk) /\ Consume(j)
TEnd     == \E j \in rem : Ev(j).k = "end"     /\ End(Ev(j).task)    /\ Consume(j)
TAcquire == \E j \in rem : Ev(j).k = "acquire" /\ Acquire(Ev(j).use) /\ Consume(j)
TJoin    == \E j \in rem : Ev(j).k = "join"    /\ Join(Ev(j).use)    /\ Consume(j)
TLeave   == \E j \in rem : Ev(j).k = "leave"   /\ Leave(Ev(j).use)   /\ Consume(j)
TRelease == \E j \in rem : Ev(j).k = "release" /\ Release(Ev(j).use) /\ Consume(j)

\* a silent tick, bounded by the next logged instant
TTick ==
  /\ rem = {} /\ pos < NInst /\ now < Tr.instants[pos + 1].t
  /\ Tick
  /\ pos' = IF now' = Tr.instants[pos + 1].t THEN pos + 1 ELSE pos
  /\ rem' = IF now' = Tr.instants[pos + 1].t THEN EvAt(pos + 1) ELSE {}
  /\ UNCHANGED <<tid, verdict, why>>

\* the schedule together with the horizon the solution reports (used by the indicators that are relative to it)
SchedR == [hz |-> Tr.fin.horizon] @@ Schedule

\* what the implementation reported at the end must be what the machine computed
ReportClauses ==
  { <<"R_buffer_history:" \o P.buffers[b].name,
      [i \in 1..Len(FinalHist[b]) |-> <<FinalHist[b][i][1], FinalHist[b][i][2]>>]
        = [i \in 1..Len(Tr.fin.hist[b]) |-> <<Tr.fin.hist[b][i][1], Tr.fin.hist[b][i][2]>>]>> : b \in B }
  \cup
  { <<"R_indicator:" \o P.inds[i].name,
      LET r == IndValue(P, SchedR, FinalHist, lv0, P.inds[i])
      IN  \* an indicator in a corner the documentation leaves open for this schedule (UnspecIndOne) is not judged
          (Len(Tr.fin.ind[i]) > 0 /\ UnspecIndOne(P, SchedR, P.inds[i]) = {})
             => (r[1] <= Tr.fin.ind[i][1] /\ Tr.fin.ind[i][1] <= r[2])>> : i \in Inds(P) }
  \cup
  { <<"R_assignment:" \o P.workers[P.uses[u].worker].name \o "/" \o P.tasks[P.uses[u].task].name,
      IF ust[u] = "done" THEN Tr.fin.uses[u] = <<ubs[u], ube[u]>> ELSE Len(Tr.fin.uses[u]) = 0>>
        : u \in { v \in U : Logged(v) } }
  \cup
  { <<"R_cumulative_assignment:" \o P.cumuls[Tr.fin.cgroups[k].cumul].name \o "/" \o P.tasks[P.reqs[Tr.fin.cgroups[k].req].task].name,
      LET cg == Tr.fin.cgroups[k]
          us == { u \in UsesOfReq(P, cg.req) : P.workers[P.uses[u].worker].cumul = cg.cumul /\ ust[u] = "done" }
      IN  { <<ubs[u], ube[u]>> : u \in us } = { <<cg.ivs[i][1], cg.ivs[i][2]>> : i \in 1..Len(cg.ivs) }>>
        : k \in 1..Len(Tr.fin.cgroups) }
  \cup
  { <<"R_horizon", \A t \in T : st[t] = "done" => te[t] <= Tr.fin.horizon>> }

TFinish ==
  /\ rem = {} /\ pos = NInst
  /\ AllTrue(ReportClauses)
  /\ Finish
  /\ verdict' = "accept"
  /\ UNCHANGED <<tid, pos, rem, why>>

Progress == TStart \/ TEnd \/ TAcquire \/ TJoin \/ TLeave \/ TRelease \/ TTick \/ TFinish

\* ---- diagnosis -----------------------------------------------------------
EventFailing(j) ==
  LET e == Ev(j) IN
  CASE e.k = "start" ->
         LET cands == { pk \in SUBSET UsesOfTask(P, e.task) :
                           { u \in pk : Logged(u) } = SeqToSet(e.picks) }
             best == CHOOSE pk \in cands : \A q \in cands :
                        Cardinality(Failing(StartClauses(e.task, pk))) <= Cardinality(Failing(StartClauses(e.task, q)))
         IN  { "start(" \o P.tasks[e.task].name \o "):" \o g : g \in Failing(StartClauses(e.task, best)) }
    [] e.k = "end" -> { "end(" \o P.tasks[e.task].name \o "):" \o g : g \in Failing(EndClauses(e.task)) }
    [] OTHER -> { e.k \o ":not_enabled" }

Diagnose ==
  IF rem # {} THEN UNION { EventFailing(j) : j \in rem }
  ELSE IF pos < NInst /\ Tr.instants[pos + 1].t <= now THEN {"event_before_time_0_or_out_of_order:G_start_nonneg"}
  ELSE IF pos < NInst THEN { "tick:" \o g : g \in Failing(TickClauses) }
  ELSE { "finish:" \o g : g \in Failing(FinishClauses \cup ReportClauses) }

Reject ==
  /\ Live /\ ~fin
  /\ ~ENABLED Progress
  /\ verdict' = "reject"
  /\ why' = Diagnose
  /\ UNCHANGED <<vars, tid, pos, rem>>

\* one named disjunct per trace action, so that TLC's -coverage reports how often each one consumed events
LStart == Live /\ TStart       LEnd == Live /\ TEnd         LAcquire == Live /\ TAcquire   LJoin == Live /\ TJoin
LLeave == Live /\ TLeave       LRelease == Live /\ TRelease LTick == Live /\ TTick         LFinish == Live /\ TFinish
TraceNext == LStart \/ LEnd \/ LAcquire \/ LJoin \/ LLeave \/ LRelease \/ LTick \/ LFinish \/ Reject

TraceSpec == TraceInit /\ [][TraceNext]_tvars

\* one line per (trace, outcome); the harness accepts a trace iff some line says accept
Consumed == SumF([i \in 1..NInst |-> IF i < pos THEN Len(Tr.instants[i].ev)
                                     ELSE IF i = pos THEN Len(Tr.instants[i].ev) - Cardinality(rem) ELSE 0], 1..NInst)
EmitVerdict ==
  verdict # "" => PrintT(ToJson([tid |-> tid, verdict |-> verdict, now |-> now,
                                  consumed |-> Consumed, why |-> SetToSeq(why)]))
=============================================================================
