------------------------------ MODULE Builder ------------------------------
(***************************************************************************)
(* Constructing a model (properties C18 and C14).                          *)
(*                                                                         *)
(* State: the module-level active problem, the name registries (one per    *)
(* kind of element), and for each element what later rules depend on       *)
(* (optional flag of tasks and constraints, whether a resource is          *)
(* assigned to a task).  One action per public constructor; its            *)
(* parameters are drawn from a boundary-value grid and its verdict is      *)
(* WellFormed(...): exactly the rules listed in the statement of C18.      *)
(* A rejected element leaves the state unchanged.  Parameter values the    *)
(* statement does not speak about are never put in the grids (they are     *)
(* unspecified).                                                           *)
(*                                                                         *)
(* TLC enumerates every (context, probe) transition and prints it with     *)
(* its verdict; the harness replays each one in the real library and       *)
(* compares "raised" with "rejected".                                      *)
(*                                                                         *)
(* The second half (Declare) enumerates the declaration orders of the      *)
(* elements of a problem inside each declaration stage (C14): the          *)
(* abstract content of the problem is the same for every order             *)
(* (Inv_OrderIrrelevant), and each complete order is printed for replay.   *)
(***************************************************************************)
EXTENDS Integers, Sequences, FiniteSets, TLC, Json, IOUtils, SequencesExt

CONSTANTS Mode   \* "probe" | "order"

VARIABLES active,    \* a SchedulingProblem exists
          reg,       \* [kind -> set of names]
          optTask,   \* names of optional tasks
          optCon,    \* names of optional constraints
          assigned,  \* names of resources assigned to at least one task
          nAssigned, \* resource name -> number of tasks it is assigned to
          phase,     \* "context" | "probe" | "done"
          ctx,       \* which context
          step,      \* position in the context script
          last,      \* the probe just made and its verdict
          \* ---- order mode
          stageOf, remaining, order

vars == <<active, reg, optTask, optCon, assigned, nAssigned, phase, ctx, step, last, stageOf, remaining, order>>

SeqToSet(q) == { q[i] : i \in 1..Len(q) }
Kinds == {"task", "worker", "cumulative", "select", "constraint", "indicator", "buffer"}

---------------------------------------------------------------------------
(* well-formedness: the rules of C18, nothing else                         *)
TaskOK(o) ==
  /\ active
  /\ o.name \notin reg["task"]
  /\ o.cls = "FixedDurationTask" => o.duration >= 1
  /\ o.work_amount >= 0 /\ o.priority >= 0
  /\ o.cls = "VariableDurationTask" => o.min_duration >= 0

WorkerOK(o) == active /\ o.name \notin reg["worker"]
CumulativeOK(o) == active /\ o.name \notin reg["cumulative"] /\ o.size >= 2
                   /\ \A i \in 1..o.size : (o.name \o "_CumulativeWorker_" \o ToString(i)) \notin reg["worker"]
SelectOK(o) == /\ active /\ o.name \notin reg["select"]
               /\ Len(o.workers) >= 2 /\ o.n <= Len(o.workers)

ConstraintOK(o) ==
  /\ active /\ o.name \notin reg["constraint"]
  /\ CASE o.cls \in {"OptionalTaskForceSchedule", "OptionalTaskConditionSchedule"} -> o.task \in optTask
       [] o.cls = "OptionalTasksDependency" -> o.task2 \in optTask
       [] o.cls = "ForceScheduleNOptionalTasks" -> SeqToSet(o.tasks) \subseteq optTask
       [] o.cls = "ForceApplyNOptionalConstraints" -> SeqToSet(o.cons) \subseteq optCon
       [] o.cls \in {"WorkLoad", "ResourceUnavailable", "ResourcePeriodicallyUnavailable", "ResourceInterrupted",
                     "ResourcePeriodicallyInterrupted", "ResourceNonDelay", "ResourceTasksDistance"}
                                  -> o.resource \in assigned
       [] OTHER -> TRUE

\* parameters the statement is silent about: such probes are emitted as "unspecified"
Unspecified(o) ==
  \/ o.kind = "constraint" /\ o.cls = "ResourceTasksDistance" /\ o.resource \in assigned /\ nAssigned[o.resource] < 2
  \* "consecutive tasks" of a cumulative worker (several at a time) is not defined by the documentation
  \/ o.kind = "constraint" /\ o.cls \in {"ResourceTasksDistance", "ResourceNonDelay"} /\ o.resource \in reg["cumulative"]
  \/ o.kind = "select" /\ o.n < 1

WellFormed(o) ==
  CASE o.kind = "task" -> TaskOK(o)
    [] o.kind = "worker" -> WorkerOK(o)
    [] o.kind = "cumulative" -> CumulativeOK(o)
    [] o.kind = "select" -> SelectOK(o)
    [] o.kind = "constraint" -> ConstraintOK(o)
    [] o.kind = "indicator" -> active /\ o.name \notin reg["indicator"]
    [] o.kind = "buffer" -> active /\ o.name \notin reg["buffer"]
    [] o.kind = "objective" -> active /\ o.target \in reg["indicator"]
    [] o.kind = "problem" -> TRUE
    [] o.kind = "require" -> active

\* effect of an accepted operation
Apply(o) ==
  CASE o.kind = "problem" ->
         /\ active' = TRUE
         /\ reg' = [k \in Kinds |-> {}] /\ optTask' = {} /\ optCon' = {} /\ assigned' = {} /\ nAssigned' = <<>>
    [] o.kind = "task" ->
         /\ reg' = [reg EXCEPT !["task"] = @ \cup {o.name}]
         /\ optTask' = IF o.optional THEN optTask \cup {o.name} ELSE optTask
         /\ UNCHANGED <<active, optCon, assigned, nAssigned>>
    [] o.kind = "constraint" ->
         /\ reg' = [reg EXCEPT !["constraint"] = @ \cup {o.name}]
         /\ optCon' = IF o.optional THEN optCon \cup {o.name} ELSE optCon
         /\ UNCHANGED <<active, optTask, assigned, nAssigned>>
    [] o.kind = "cumulative" ->
         /\ reg' = [reg EXCEPT !["cumulative"] = @ \cup {o.name},
                               !["worker"] = @ \cup { o.name \o "_CumulativeWorker_" \o ToString(i) : i \in 1..o.size }]
         /\ UNCHANGED <<active, optTask, optCon, assigned, nAssigned>>
    [] o.kind = "objective" -> UNCHANGED <<active, reg, optTask, optCon, assigned, nAssigned>>
    [] o.kind = "require" ->
         /\ assigned' = assigned \cup {o.resource}
         /\ nAssigned' = IF o.resource \in DOMAIN nAssigned THEN [nAssigned EXCEPT ![o.resource] = @ + 1]
                         ELSE [r \in DOMAIN nAssigned \cup {o.resource} |-> IF r = o.resource THEN 1 ELSE nAssigned[r]]
         /\ UNCHANGED <<active, reg, optTask, optCon>>
    [] OTHER ->
         /\ reg' = [reg EXCEPT ![o.kind] = @ \cup {o.name}]
         /\ UNCHANGED <<active, optTask, optCon, assigned, nAssigned>>

---------------------------------------------------------------------------
(* contexts: scripts of operations that are all well-formed                *)
Tk(cls, name, opt) == [kind |-> "task", cls |-> cls, name |-> name, duration |-> 1, work_amount |-> 0,
                       priority |-> 1, min_duration |-> 0, optional |-> opt]
Contexts ==
  [ none    |-> <<>>,
    empty   |-> << [kind |-> "problem"] >>,
    full    |-> << [kind |-> "problem"],
                   Tk("FixedDurationTask", "T1", FALSE), Tk("FixedDurationTask", "T2", TRUE),
                   Tk("ZeroDurationTask", "T3", TRUE),
                   [kind |-> "worker", name |-> "W1"], [kind |-> "worker", name |-> "W2"], [kind |-> "worker", name |-> "W3"],
                   [kind |-> "cumulative", name |-> "CW", size |-> 2, cost2 |-> 0, productivity |-> 1],
                   [kind |-> "cumulative", name |-> "CW2", size |-> 2, cost2 |-> 0, productivity |-> 1],
                   [kind |-> "require", task |-> "T1", resource |-> "W1"],
                   [kind |-> "require", task |-> "T2", resource |-> "W1"],
                   [kind |-> "require", task |-> "T1", resource |-> "W3"],
                   [kind |-> "require", task |-> "T2", resource |-> "CW"],
                   [kind |-> "select", name |-> "S1", workers |-> <<"W1", "W2">>, n |-> 1],
                   [kind |-> "constraint", cls |-> "TaskStartAt", name |-> "K1", task |-> "T1", optional |-> TRUE],
                   [kind |-> "constraint", cls |-> "TaskStartAt", name |-> "K2", task |-> "T2", optional |-> FALSE],
                   \* K2 becomes the operand of a connective: it is still a constraint of the problem, its name stays taken
                   [kind |-> "constraint", cls |-> "Not", name |-> "N1", operand |-> "K2", optional |-> FALSE],
                   [kind |-> "indicator", name |-> "I1"],
                   [kind |-> "buffer", name |-> "B1"] >>,
    \* a few creations that are refused, then the probes: a refused element must not occupy its name
    retry   |-> << [kind |-> "problem"],
                   Tk("FixedDurationTask", "T1", FALSE), Tk("FixedDurationTask", "T2", TRUE), Tk("ZeroDurationTask", "T3", TRUE),
                   [kind |-> "worker", name |-> "W1"], [kind |-> "worker", name |-> "W2"], [kind |-> "worker", name |-> "W3"],
                   [kind |-> "cumulative", name |-> "CW", size |-> 2, cost2 |-> 0, productivity |-> 1],
                   [kind |-> "cumulative", name |-> "CW2", size |-> 2, cost2 |-> 0, productivity |-> 1],
                   [kind |-> "require", task |-> "T1", resource |-> "W1"],
                   [kind |-> "require", task |-> "T2", resource |-> "W1"],
                   [kind |-> "select", name |-> "New", workers |-> <<"W1", "W2">>, n |-> 3, bad |-> TRUE],
                   [kind |-> "cumulative", name |-> "New", size |-> 1, cost2 |-> 0, productivity |-> 1, bad |-> TRUE],
                   [duration |-> 0, bad |-> TRUE] @@ Tk("FixedDurationTask", "New", FALSE),
                   [kind |-> "constraint", cls |-> "OptionalTaskForceSchedule", name |-> "New", task |-> "T1", optional |-> FALSE, bad |-> TRUE],
                   [kind |-> "indicator", name |-> "I1"] >> ]

\* operations marked bad are ill-formed on purpose: the library must refuse them and keep no trace of them
Bad(o) == "bad" \in DOMAIN o /\ o.bad

\* the context scripts are printed once, so that the harness replays exactly these
ASSUME Mode = "probe" => PrintT(ToJson([contexts |-> Contexts]))

TaskProbes ==
  { [kind |-> "task", cls |-> c, name |-> n, duration |-> d, work_amount |-> w, priority |-> pr, min_duration |-> mn, optional |-> op] :
      c \in {"FixedDurationTask", "ZeroDurationTask", "VariableDurationTask"}, n \in {"New", "T1", "W1"},
      d \in {-1, 0, 1, 2}, w \in {-1, 0, 3}, pr \in {-1, 0, 1}, mn \in {-1, 0, 2}, op \in BOOLEAN }
ReducedTaskProbes ==  \* parameters a class does not have are left at their neutral value
  { o \in TaskProbes : /\ (o.cls # "FixedDurationTask" => o.duration = 1)
                       /\ (o.cls # "VariableDurationTask" => o.min_duration = 0) }
WorkerProbes == { [kind |-> "worker", name |-> n] : n \in {"New", "W1", "T1", "CW_CumulativeWorker_1", "CW"} }
\* cost2 = twice the constant cost per period (0: no cost given); a fractional cost is legal (the documentation only
\* warns about the results), as is any productivity >= 0
CumulativeProbes == { [kind |-> "cumulative", name |-> n, size |-> s, cost2 |-> c2, productivity |-> pr] :
                        n \in {"New", "CW", "W1"}, s \in {-1, 0, 1, 2, 3}, c2 \in {0, 5, 6, 1}, pr \in {1, 5} }
SelectProbes == { [kind |-> "select", name |-> n, workers |-> ws, n |-> k] :
                    n \in {"New", "S1"}, ws \in {<<>>, <<"W1">>, <<"W1", "W2">>, <<"W1", "W2", "W3">>, <<"CW", "W1">>, <<"CW", "CW2">>, <<"CW">>},
                    k \in {1, 2, 3, 4} }
ConstraintProbes ==
  { [kind |-> "constraint", cls |-> c, name |-> n, task |-> t, optional |-> FALSE] :
      c \in {"OptionalTaskForceSchedule", "OptionalTaskConditionSchedule", "TaskStartAt"}, n \in {"New", "K1", "K2", "N1"}, t \in {"T1", "T2", "T3"} }
  \cup { [kind |-> "constraint", cls |-> "Not", name |-> n, operand |-> k, optional |-> FALSE] : n \in {"New", "K1", "K2"}, k \in {"K1", "K2"} }
  \cup { [kind |-> "constraint", cls |-> "OptionalTasksDependency", name |-> "New", task1 |-> a, task2 |-> b, optional |-> FALSE] :
           a \in {"T1", "T2"}, b \in {"T1", "T2", "T3"} }
  \cup { [kind |-> "constraint", cls |-> "ForceScheduleNOptionalTasks", name |-> "New", tasks |-> ts, optional |-> FALSE] :
           ts \in {<<"T2">>, <<"T2", "T3">>, <<"T1", "T2">>, <<"T1">>} }
  \cup { [kind |-> "constraint", cls |-> "ForceApplyNOptionalConstraints", name |-> "New", cons |-> cs, optional |-> FALSE] :
           cs \in {<<"K1">>, <<"K2">>, <<"K1", "K2">>} }
  \* bound: the bound of the single WorkLoad interval (0, 2): tight (1) or slack (4, more than a cumulative worker of
  \* size 2 can do); the other classes ignore it
  \cup { [kind |-> "constraint", cls |-> c, name |-> "New", resource |-> r, optional |-> op, bound |-> bd] :
           c \in {"WorkLoad", "ResourceUnavailable", "ResourcePeriodicallyUnavailable", "ResourceInterrupted",
                  "ResourcePeriodicallyInterrupted", "ResourceNonDelay", "ResourceTasksDistance"},
           r \in {"W1", "W2", "W3", "CW", "CW2"}, op \in BOOLEAN, bd \in {1, 4} }
OtherProbes == { [kind |-> k, name |-> n] : k \in {"indicator", "buffer"}, n \in {"New", "I1", "B1", "T1"} }
\* an objective over a declared indicator, with or without an explicit weight (weight2 = -1: none given; 0 is legal)
ObjectiveProbes == { [kind |-> "objective", cls |-> c, name |-> "New", target |-> "I1", weight |-> w] :
                       c \in {"ObjectiveMinimizeIndicator", "ObjectiveMaximizeIndicator"}, w \in {-1, 0, 1, 3} }

ReducedConstraintProbes == { o \in ConstraintProbes : ("bound" \in DOMAIN o /\ o.cls # "WorkLoad") => o.bound = 1 }
Probes == ReducedTaskProbes \cup WorkerProbes \cup CumulativeProbes \cup SelectProbes \cup ReducedConstraintProbes \cup OtherProbes
            \cup ObjectiveProbes
\* before any problem exists only the bare creation of each kind of element is probed
BareProbes == { o \in Probes : o.name = "New" /\ (o.kind = "task" => (o.duration = 1 /\ o.work_amount = 0 /\ o.priority = 1 /\ o.min_duration = 0 /\ ~o.optional))
                               /\ (o.kind = "cumulative" => o.size = 2 /\ o.cost2 = 0 /\ o.productivity = 1) /\ (o.kind = "select" => FALSE)
                               /\ (o.kind = "constraint" => FALSE) /\ (o.kind = "objective" => FALSE) }

---------------------------------------------------------------------------
InitProbe ==
  /\ Mode = "probe"
  /\ active = FALSE /\ reg = [k \in Kinds |-> {}] /\ optTask = {} /\ optCon = {} /\ assigned = {} /\ nAssigned = <<>>
  /\ phase = "context" /\ ctx \in DOMAIN Contexts /\ step = 1 /\ last = <<>>
  /\ stageOf = <<>> /\ remaining = {} /\ order = <<>>

RunContext ==
  /\ phase = "context" /\ step <= Len(Contexts[ctx])
  /\ Assert(WellFormed(Contexts[ctx][step]) # Bad(Contexts[ctx][step]), "context scripts are well-formed, except the operations marked bad")
  /\ IF Bad(Contexts[ctx][step]) THEN UNCHANGED <<active, reg, optTask, optCon, assigned, nAssigned>>
     ELSE Apply(Contexts[ctx][step])
  /\ step' = step + 1
  /\ UNCHANGED <<phase, ctx, last, stageOf, remaining, order>>

ContextDone ==
  /\ phase = "context" /\ step > Len(Contexts[ctx])
  /\ phase' = "probe"
  /\ UNCHANGED <<active, reg, optTask, optCon, assigned, nAssigned, ctx, step, last, stageOf, remaining, order>>

Probe(o) ==
  /\ phase = "probe"
  /\ IF WellFormed(o) THEN Apply(o)
     ELSE UNCHANGED <<active, reg, optTask, optCon, assigned, nAssigned>>      \* a rejected element leaves no trace
  /\ last' = [ctx |-> ctx, op |-> o,
               verdict |-> IF Unspecified(o) THEN "unspecified" ELSE IF WellFormed(o) THEN "accept" ELSE "reject"]
  /\ phase' = "done"
  /\ UNCHANGED <<ctx, step, stageOf, remaining, order>>

ProbeSet == IF ctx = "retry" THEN { o \in Probes : o.name = "New" /\ o.kind \in {"select", "cumulative", "task", "constraint"} /\ (o.kind = "constraint" => o.cls # "Not") } ELSE
            IF ctx = "none" THEN BareProbes ELSE IF ctx = "empty" THEN { o \in Probes : o.kind \in {"task", "worker", "cumulative", "indicator", "buffer"} } ELSE Probes

NextProbe == RunContext \/ ContextDone \/ \E o \in ProbeSet : Probe(o)

\* a rejected element leaves no trace in any registry
RejectedLeavesNoTrace ==
  [][\A o \in ProbeSet : (phase = "probe" /\ ~WellFormed(o) /\ Probe(o))
                            => UNCHANGED <<active, reg, optTask, optCon, assigned, nAssigned>>]_vars
\* an accepted named element is registered under its kind
AcceptedIsRegistered ==
  [][\A o \in ProbeSet : (phase = "probe" /\ WellFormed(o) /\ Probe(o) /\ o.kind \in Kinds)
                            => o.name \in reg'[o.kind]]_vars

---------------------------------------------------------------------------
(* declaration orders (C14): $ORDER_SPEC = sizes of the declaration stages *)
Stages == <<"tasks", "workers", "cons", "inds">>
Sizes == JsonDeserialize(IOEnv.ORDER_FILE)
InitOrder ==
  /\ Mode = "order"
  /\ active = TRUE /\ reg = [k \in Kinds |-> {}] /\ optTask = {} /\ optCon = {} /\ assigned = {} /\ nAssigned = <<>>
  /\ phase = "order" /\ ctx = "none" /\ step = 1 /\ last = <<>>
  /\ stageOf = Stages
  /\ remaining = [s \in 1..4 |-> 1..Sizes[s]]
  /\ order = [s \in 1..4 |-> <<>>]

Declare(s, e) ==
  /\ phase = "order" /\ s = step /\ e \in remaining[s]
  /\ order' = [order EXCEPT ![s] = Append(@, e)]
  /\ remaining' = [remaining EXCEPT ![s] = @ \ {e}]
  /\ UNCHANGED <<active, reg, optTask, optCon, assigned, nAssigned, phase, ctx, step, last, stageOf>>

NextStage ==
  /\ phase = "order" /\ step <= 4 /\ remaining[step] = {}
  /\ step' = step + 1
  /\ phase' = IF step = 4 THEN "done" ELSE "order"
  /\ UNCHANGED <<active, reg, optTask, optCon, assigned, nAssigned, ctx, last, stageOf, remaining, order>>

NextOrder == NextStage \/ \E s \in 1..4 : \E e \in remaining[s] : Declare(s, e)

\* whatever the order, the same elements have been declared (the content is a set, not a sequence)
Inv_OrderIrrelevant == phase = "done" /\ Mode = "order" => \A s \in 1..4 : SeqToSet(order[s]) = 1..Sizes[s]

\* every probe transition / every complete order is printed once, from the state it leads to
Emit == phase = "done" => PrintT(ToJson(IF Mode = "probe" THEN last ELSE [order |-> order]))

Init == InitProbe \/ InitOrder
Next == IF Mode = "probe" THEN NextProbe ELSE NextOrder
Spec == Init /\ [][Next]_vars
=============================================================================
