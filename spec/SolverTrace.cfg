SPECIFICATION TraceSpec
CONSTANTS
  PopOnExit = FALSE
  MaxCalls = 1000
CHECK_DEADLOCK FALSE
INVARIANT TypeOK
INVARIANT EmitVerdict
