------------------------------ MODULE Problem ------------------------------
(***************************************************************************)
(* Accessors over the neutral problem description.                         *)
(*                                                                         *)
(* A problem is a record produced by /verif/harness/problems.py and read   *)
(* with JsonDeserialize; the very same JSON document is turned into real   *)
(* processscheduler objects by /verif/harness/build.py.  Every field is    *)
(* always present; an optional value is the sequence <<>> or <<v>> (the    *)
(* Json module rejects null).  Elements are referred to by 1-based index.  *)
(*                                                                         *)
(*   p.H, p.user_horizon                                                   *)
(*   p.tasks   [name, kind "F"|"Z"|"V", dur, min, max(opt), allowed(seq),  *)
(*              optional, release(opt), due(opt), deadline, priority, work]*)
(*   p.workers [name, prod, cost [k, c], cumul]   unit workers             *)
(*   p.cumuls  [name, size, units]                                         *)
(*   p.selects [name, workers, n, kind]                                    *)
(*   p.reqs    [task, type, ref, uses, n, kind]                            *)
(*   p.uses    [task, worker, req, dynamic, delay_in, early_out]           *)
(*   p.cons    [name, cls, optional, top, ...class specific...]            *)
(*   p.buffers [name, concurrent, initial(opt), final(opt), lower(opt),    *)
(*              upper(opt), init_lo, init_hi, ops [task, q, kind]]         *)
(*   p.inds    [name, cls, ...]      p.objs [name, ind, kind, weight]      *)
(***************************************************************************)
EXTENDS Integers, Sequences, FiniteSets

Has(o)  == Len(o) > 0
Val(o)  == o[1]
SeqToSet(s) == { s[i] : i \in 1..Len(s) }

RECURSIVE SumF(_, _)
SumF(f, S) == IF S = {} THEN 0
              ELSE LET x == CHOOSE y \in S : TRUE IN f[x] + SumF(f, S \ {x})

MaxOf(S) == CHOOSE x \in S : \A y \in S : y <= x
MinOf(S) == CHOOSE x \in S : \A y \in S : x <= y
Max2(a, b) == IF a >= b THEN a ELSE b
Min2(a, b) == IF a <= b THEN a ELSE b

Tasks(p)   == 1..Len(p.tasks)
Workers(p) == 1..Len(p.workers)
Uses(p)    == 1..Len(p.uses)
Reqs(p)    == 1..Len(p.reqs)
ConsOf(p)    == 1..Len(p.cons)
Buffers(p) == 1..Len(p.buffers)
Inds(p)    == 1..Len(p.inds)

UsesOfTask(p, t)   == { u \in Uses(p) : p.uses[u].task = t }
UsesOfWorker(p, w) == { u \in Uses(p) : p.uses[u].worker = w }
ReqsOfTask(p, t)   == { r \in Reqs(p) : p.reqs[r].task = t }
UsesOfReq(p, r)    == SeqToSet(p.reqs[r].uses)

\* unit workers behind a "resource" reference [t |-> "worker"|"cumul", i |-> idx]
UnitsOf(p, res) == IF res.t = "worker" THEN {res.i}
                   ELSE SeqToSet(p.cumuls[res.i].units)
UsesOfRes(p, res) == UNION { UsesOfWorker(p, w) : w \in UnitsOf(p, res) }

CountOK(kind, k, n) == CASE kind = "exact" -> k = n
                         [] kind = "min"   -> k >= n
                         [] kind = "max"   -> k <= n

\* length of the intersection of [a,b) and [lo,hi)
Overlap(a, b, lo, hi) == Max2(0, Min2(b, hi) - Max2(a, lo))
=============================================================================
