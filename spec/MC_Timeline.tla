---------------------------- MODULE MC_Timeline ----------------------------
(* Exhaustive enumeration of V(P) for every problem of the family in       *)
(* $PROBLEMS_FILE, checking the property invariants on the way.            *)
EXTENDS Timeline
=============================================================================
