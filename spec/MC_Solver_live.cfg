SPECIFICATION LiveSpec
CONSTANTS
  PopOnExit = TRUE
  MaxCalls = 7
CHECK_DEADLOCK FALSE
PROPERTY Exhausts
