SPECIFICATION Spec
CONSTANTS
  PopOnExit = TRUE
  MaxCalls = 5
CHECK_DEADLOCK FALSE
INVARIANT TypeOK
INVARIANT Prop_C13_FalseIsTruthful
INVARIANT Prop_C13_ReturnedIsValid
INVARIANT Prop_C07_Optimal
INVARIANT Prop_C07_NoWorseThanIncumbents
INVARIANT Prop_C07_EarlyStopStillValid
INVARIANT Prop_C12_Distinct
INVARIANT Prop_C12_FailsOnlyWhenExhausted
INVARIANT Prop_C12_VarDiffers
