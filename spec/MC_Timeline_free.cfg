SPECIFICATION Spec
CONSTANTS
  Canonical = FALSE
  Declarative = FALSE
CHECK_DEADLOCK FALSE
INVARIANT TypeOK
INVARIANT Inv_TaskTiming
INVARIANT Inv_Capacity
INVARIANT Inv_CumulativeCapacity
INVARIANT Inv_AssignmentInsideSpan
INVARIANT Inv_SelectionCount
INVARIANT Inv_WorkAmount
INVARIANT Inv_ConstraintsAtFinish
INVARIANT Inv_SkippedIsInert
INVARIANT Inv_BufferTrajectory
INVARIANT EmitAtFinish
PROPERTY SkipNeverActs
