---------------------------- MODULE ReportTrace ----------------------------
(***************************************************************************)
(* Decides, for every record the harness extracted from the real library   *)
(* ($REPORT_FILE: the model's abstract schedule S, the solution object     *)
(* `sol`, and optionally the parsed exports `ex` and the drawn artists     *)
(* `g`), whether  sol = Report(S),  exports = Export(sol),                 *)
(* drawing = Gantt(sol).  One step per record; the verdict names every     *)
(* failing clause.                                                         *)
(***************************************************************************)
EXTENDS Report, Json, IOUtils

Problems == JsonDeserialize(IOEnv.PROBLEMS_FILE)
Records == JsonDeserialize(IOEnv.REPORT_FILE)

VARIABLES rid, done
Rec == Records[rid]
P == Problems[Rec.pid]

Failing(cl) == { c[1] : c \in { d \in cl : ~d[2] } }

Clauses ==
  (IF "S" \in DOMAIN Rec THEN C11Clauses(P, Rec.S, Rec.sol) ELSE {})
  \cup (IF "ex" \in DOMAIN Rec THEN C16Clauses(Rec.sol, Rec.ex) ELSE {})
  \cup (IF "g" \in DOMAIN Rec THEN C17Clauses(Rec.sol, Rec.g) ELSE {})

Init == rid \in 1..Len(Records) /\ done = FALSE
Judge == /\ ~done /\ done' = TRUE /\ UNCHANGED rid
         /\ PrintT(ToJson([rid |-> rid, nclauses |-> Cardinality(Clauses), failing |-> SetToSeq(Failing(Clauses))]))
Spec == Init /\ [][Judge]_<<rid, done>>
=============================================================================
