------------------------------ MODULE Timeline ------------------------------
(***************************************************************************)
(* What a schedule MEANS, as a machine.                                    *)
(*                                                                         *)
(* Time advances in unit ticks.  Inside an instant any number of           *)
(* micro-steps happen: tasks start and end, workers are acquired and       *)
(* released, buffers are unloaded (at a start) and loaded (at an end).     *)
(* A complete behaviour (ending with Finish) is a valid schedule of the    *)
(* problem P; the set of complete behaviours of P is V(P).                 *)
(*                                                                         *)
(* The machine is written from the documentation and the statements of     *)
(* properties C01-C06, C08-C10, not from the z3 encoders: capacity,        *)
(* calendars, interruptions, work amount, workload and buffers are         *)
(* OPERATIONAL (guards and counters below); purely relational rules are    *)
(* evaluated with the declarative Semantics!Holds at Finish.  Where both   *)
(* formulations exist TLC checks that they agree (Inv_OperationalAgrees,   *)
(* and the Declarative = TRUE variant enumerates the same V(P)).           *)
(*                                                                         *)
(* Every guard is a set of NAMED clauses so that the trace specification   *)
(* can say which clause rejects an implementation behaviour.               *)
(***************************************************************************)
EXTENDS Semantics, Indicators, Json, IOUtils

CONSTANTS Canonical,    \* TRUE: micro-steps of one instant in one fixed order (enumeration)
          Declarative   \* TRUE: calendars/workload by Holds instead of guards (self-audit)

Problems == JsonDeserialize(IOEnv.PROBLEMS_FILE)

VARIABLES pid,      \* which problem of the family
          now,      \* current instant
          last,     \* key of the last micro-step of this instant (0 after a tick)
          fin,      \* the behaviour is complete
          sched,    \* per task: scheduled (fixed in Init; mandatory tasks TRUE)
          ap,       \* per constraint: applied (fixed in Init; mandatory ones TRUE)
          st,       \* per task: "pending" | "running" | "done" | "skipped"
          ts, te,   \* per task: start, end (-1 = not yet)
          prog,     \* per task: uninterrupted periods worked
          work,     \* per task: sum of productivity over busy periods
          ust,      \* per use: "idle" | "waiting" | "busy" | "done" | "unused"
          ubs, ube, \* per use: busy interval (-1 = not yet)
          flash,    \* unit workers used for a zero-length interval at this instant
          level,    \* per buffer
          lv0,      \* per buffer: level at time 0
          cnt,      \* per buffer: accesses at this instant
          hist,     \* per buffer: sequence of <<instant, level after its accesses>>
          load      \* per WorkLoad constraint: busy periods counted per interval

vars == <<pid, now, last, fin, sched, ap, st, ts, te, prog, work, ust, ubs, ube,
          flash, level, lv0, cnt, hist, load>>

P == Problems[pid]

T == Tasks(P)
U == Uses(P)
C == ConsOf(P)
B == Buffers(P)

---------------------------------------------------------------------------
(* derived state                                                           *)
BusyOn(w)   == { u \in UsesOfWorker(P, w) : ust[u] = "busy" }
BusyOf(t)   == { u \in UsesOfTask(P, t) : ust[u] = "busy" }
Binding(c)  == P.cons[c].top /\ ap[c]
CalCons(k)  == { c \in C : Binding(c) /\ P.cons[c].cls \in k }
UnavailCls  == {"ResourceUnavailable", "ResourcePeriodicallyUnavailable"}
InterrCls   == {"ResourceInterrupted", "ResourcePeriodicallyInterrupted"}
WorkLoadCons == { c \in C : P.cons[c].cls = "WorkLoad" }

\* is unit worker w off (unavailable) / interrupting during the period [k, k+1) ?
Off(w, k)   == \E c \in CalCons(UnavailCls) :
                  w \in UnitsOf(P, P.cons[c].res) /\ CalHit(P.cons[c], k)
Interr(w, k) == \E c \in CalCons(InterrCls) :
                  w \in UnitsOf(P, P.cons[c].res) /\ CalHit(P.cons[c], k)
Interrupted(t, k) == \E u \in BusyOf(t) : Interr(P.uses[u].worker, k)

Schedule == [sched |-> sched, s |-> ts, e |-> te,
             used |-> [u \in U |-> ust[u] = "done"], bs |-> ubs, be |-> ube, ap |-> ap]

\* tasks whose duration bounds are extended by an interruption calendar (Declarative mode leaves them to Holds)
UnderInterruption(t) == \E u \in UsesOfTask(P, t) : \E c \in CalCons(InterrCls) :
                           /\ ust[u] \in {"waiting", "busy", "done"}       \* a use the task actually takes
                           /\ P.uses[u].worker \in UnitsOf(P, P.cons[c].res)

OperationalCls == UnavailCls \cup InterrCls \cup {"WorkLoad"}

---------------------------------------------------------------------------
(* guard clauses: sets of <<name, truth>>                                  *)
Failing(cl) == { c[1] : c \in { d \in cl : ~d[2] } }
AllTrue(cl) == \A c \in cl : c[2]

Key(k)      == Canonical => k > last

SelectReqs(t) == { r \in ReqsOfTask(P, t) : P.reqs[r].type # "worker" }
\* a requirement lists MEMBERS (groups of uses): a plain worker is one use, a cumulative worker listed in a
\* selection is the group of its unit workers (picking it takes one unit); the count rule counts members
GroupsOf(r) == { SeqToSet(P.reqs[r].groups[g]) : g \in 1..Len(P.reqs[r].groups) }
MembersPicked(r, pk) == Cardinality({ g \in GroupsOf(r) : g \cap pk # {} })
PickOK(r, pk) == /\ CountOK(P.reqs[r].kind, MembersPicked(r, pk), P.reqs[r].n)
                 /\ \A g \in GroupsOf(r) : Cardinality(g \cap pk) <= 1
PickSets(t) ==  \* all ways of choosing workers for the selections of task t
  LET selUses == UNION { UsesOfReq(P, r) : r \in SelectReqs(t) }
  IN  { pk \in SUBSET selUses : \A r \in SelectReqs(t) : PickOK(r, pk) }

\* uses of t that take part once the selections are made
Taking(t, pk) == { u \in UsesOfTask(P, t) : P.reqs[P.uses[u].req].type = "worker" \/ u \in pk }

BufOps(b, t, kind) == { i \in 1..Len(P.buffers[b].ops) :
                          P.buffers[b].ops[i].task = t /\ P.buffers[b].ops[i].kind = kind }
Qty(b, t, kind) == LET ops == BufOps(b, t, kind)
                   IN SumF([i \in ops |-> P.buffers[b].ops[i].q], ops)

StartClauses(t, pk) ==
  LET tk == P.tasks[t] IN
  { <<"G_pending",         st[t] = "pending">>,
    <<"G_start_nonneg",    now >= 0>>,
    <<"G_release",         Has(tk.release) => now >= Val(tk.release)>>,
    <<"G_selection_from_list", pk \subseteq UNION { UsesOfReq(P, r) : r \in SelectReqs(t) }>>,
    <<"G_selection_count", \A r \in SelectReqs(t) : PickOK(r, pk)>>,
    <<"G_horizon",         tk.kind = "F" => now + tk.dur <= P.H>>,
    <<"G_not_inside_interruption", Declarative \/ tk.kind # "V" \/ now = 0 \/
          \A u \in Taking(t, pk) : LET w == P.uses[u].worker IN ~(Interr(w, now) /\ Interr(w, now - 1))>>,
    <<"G_buffer_exclusive", \A b \in B : (BufOps(b, t, "unload") # {} /\ ~P.buffers[b].concurrent)
                                            => cnt[b] = 0>> }

Start(t, pk) ==
  /\ ~fin /\ Key(1000 + t)
  /\ AllTrue(StartClauses(t, pk))
  /\ st' = [st EXCEPT ![t] = "running"]
  /\ ts' = [ts EXCEPT ![t] = now]
  /\ ust' = [u \in U |->
               IF P.uses[u].task # t THEN ust[u]
               ELSE IF u \notin Taking(t, pk) THEN "unused"
               ELSE IF P.uses[u].dynamic THEN "idle"
               ELSE IF P.uses[u].delay_in > 0 THEN "waiting"
               ELSE "busy"]
  /\ ubs' = [u \in U |-> IF P.uses[u].task = t /\ ust'[u] = "busy" THEN now ELSE ubs[u]]
  /\ level' = [b \in B |-> level[b] - Qty(b, t, "unload")]
  /\ cnt' = [b \in B |-> cnt[b] + Cardinality(BufOps(b, t, "unload"))]
  /\ last' = 1000 + t
  /\ UNCHANGED <<pid, now, fin, sched, ap, te, prog, work, ube, flash, lv0, hist, load>>

\* a worker joins later (delay_in) / a dynamic worker joins / leaves / leaves early
Acquire(u) ==
  /\ ~fin /\ Key(2000 + u)
  /\ ust[u] = "waiting" /\ now = ts[P.uses[u].task] + P.uses[u].delay_in
  /\ ust' = [ust EXCEPT ![u] = "busy"] /\ ubs' = [ubs EXCEPT ![u] = now]
  /\ last' = 2000 + u
  /\ UNCHANGED <<pid, now, fin, sched, ap, st, ts, te, prog, work, ube, flash, level, lv0, cnt, hist, load>>

Join(u) ==
  /\ ~fin /\ Key(3000 + u)
  /\ P.uses[u].dynamic /\ ust[u] = "idle" /\ st[P.uses[u].task] = "running"
  /\ ust' = [ust EXCEPT ![u] = "busy"] /\ ubs' = [ubs EXCEPT ![u] = now]
  /\ last' = 3000 + u
  /\ UNCHANGED <<pid, now, fin, sched, ap, st, ts, te, prog, work, ube, flash, level, lv0, cnt, hist, load>>

CloseUse(u) ==  \* effect shared by Leave / Release
  /\ ust' = [ust EXCEPT ![u] = "done"] /\ ube' = [ube EXCEPT ![u] = now]
  /\ flash' = IF ubs[u] = now THEN flash \cup {P.uses[u].worker} ELSE flash

Leave(u) ==
  /\ ~fin /\ Key(4000 + u)
  /\ P.uses[u].dynamic /\ ust[u] = "busy"
  /\ CloseUse(u)
  /\ last' = 4000 + u
  /\ UNCHANGED <<pid, now, fin, sched, ap, st, ts, te, prog, work, ubs, level, lv0, cnt, hist, load>>

Release(u) ==
  /\ ~fin /\ Key(5000 + u)
  /\ P.uses[u].early_out > 0 /\ ust[u] = "busy"
  /\ LET tk == P.tasks[P.uses[u].task]
     IN  tk.kind = "F" => now = ts[P.uses[u].task] + tk.dur - P.uses[u].early_out
  /\ CloseUse(u)
  /\ last' = 5000 + u
  /\ UNCHANGED <<pid, now, fin, sched, ap, st, ts, te, prog, work, ubs, level, lv0, cnt, hist, load>>

EndClauses(t) ==
  LET tk == P.tasks[t]
      d  == now - ts[t]
      us == UsesOfTask(P, t)
  IN
  { <<"G_running",   st[t] = "running">>,
    <<"G_duration",  CASE tk.kind = "F" -> d = tk.dur /\ prog[t] = d
                       [] tk.kind = "Z" -> d = 0
                       [] tk.kind = "V" -> /\ prog[t] >= tk.min
                                           /\ (Has(tk.max) /\ ~(Declarative /\ UnderInterruption(t))) => prog[t] <= Val(tk.max)
                                           /\ Len(tk.allowed) > 0 => d \in SeqToSet(tk.allowed)>>,
    <<"G_horizon",   now <= P.H>>,
    <<"G_not_inside_interruption", Declarative \/ tk.kind # "V" \/ now = 0 \/
          \A u \in us : ust[u] = "busy" =>
              LET w == P.uses[u].worker IN ~(Interr(w, now) /\ Interr(w, now - 1))>>,
    <<"G_deadline",  (Has(tk.due) /\ tk.deadline) => now <= Val(tk.due)>>,
    <<"G_work_amount", (tk.work > 0 /\ us # {}) => work[t] >= tk.work>>,
    <<"G_span_delay_in", \A u \in us : ust[u] = "waiting" => now = ts[t] + P.uses[u].delay_in>>,
    <<"G_span_early_out", \A u \in us : (ust[u] \in {"busy", "waiting"} /\ ~P.uses[u].dynamic)
                                          => P.uses[u].early_out = 0>>,
    <<"G_span_early_out_at", \A u \in us : (ust[u] = "done" /\ ~P.uses[u].dynamic)
                                          => ube[u] = now - P.uses[u].early_out>>,
    <<"G_buffer_exclusive", \A b \in B : (BufOps(b, t, "load") # {} /\ ~P.buffers[b].concurrent)
                                            => cnt[b] = 0>> }

End(t) ==
  /\ ~fin /\ Key(6000 + t)
  /\ AllTrue(EndClauses(t))
  /\ st' = [st EXCEPT ![t] = "done"]
  /\ te' = [te EXCEPT ![t] = now]
  /\ LET closing == { u \in UsesOfTask(P, t) : ust[u] \in {"busy", "waiting", "idle"} }
     IN  /\ ust' = [u \in U |-> IF u \in closing THEN "done" ELSE ust[u]]
         /\ ubs' = [u \in U |-> IF u \in closing /\ ust[u] # "busy" THEN now ELSE ubs[u]]
         /\ ube' = [u \in U |-> IF u \in closing THEN now ELSE ube[u]]
         /\ flash' = flash \cup { P.uses[u].worker : u \in { v \in closing : ust[v] # "busy" \/ ubs[v] = now } }
  /\ level' = [b \in B |-> level[b] + Qty(b, t, "load")]
  /\ cnt' = [b \in B |-> cnt[b] + Cardinality(BufOps(b, t, "load"))]
  /\ last' = 6000 + t
  /\ UNCHANGED <<pid, now, fin, sched, ap, ts, prog, work, lv0, hist, load>>

\* the level the buffer holds before the first access obeys the bounds too
LvOK(b, x) == /\ Has(P.buffers[b].lower) => x >= Val(P.buffers[b].lower)
              /\ Has(P.buffers[b].upper) => x <= Val(P.buffers[b].upper)
BoundsOK(b) == /\ Has(P.buffers[b].lower) => level[b] >= Val(P.buffers[b].lower)
               /\ Has(P.buffers[b].upper) => level[b] <= Val(P.buffers[b].upper)

TickClauses ==
  { <<"G_time_left",   now < P.H>>,
    <<"G_unfinished",  \E t \in T : st[t] \in {"pending", "running"}>>,
    <<"G_worker_free", \A w \in Workers(P) : Cardinality(BusyOn(w)) <= 1>>,
    <<"G_worker_free_zero_length", \A w \in flash : \A u \in BusyOn(w) : ubs[u] = now>>,
    <<"G_worker_available", Declarative \/
           \A u \in U : ust[u] = "busy" =>
               LET w == P.uses[u].worker IN
               /\ ~Off(w, now)
               /\ P.tasks[P.uses[u].task].kind # "V" => ~Interr(w, now)>>,
    <<"G_duration_not_exceeded", \A t \in T : st[t] = "running" =>
           LET tk == P.tasks[t] IN
           CASE tk.kind = "F" -> now - ts[t] < tk.dur
             [] tk.kind = "Z" -> FALSE
             [] tk.kind = "V" -> Has(tk.max) => (prog[t] < Val(tk.max) \/ (~Declarative /\ Interrupted(t, now))
                                                  \/ (Declarative /\ UnderInterruption(t)))>>,
    <<"G_deadline_reachable", \A t \in T : (st[t] = "running" /\ Has(P.tasks[t].due) /\ P.tasks[t].deadline)
                                              => now < Val(P.tasks[t].due)>>,
    <<"G_span_delay_in", \A u \in U : ust[u] = "waiting" => now < ts[P.uses[u].task] + P.uses[u].delay_in>>,
    <<"G_buffer_bounds", \A b \in B : BoundsOK(b)>>,
    <<"G_can_still_fit", \A t \in T : (st[t] = "pending" /\ P.tasks[t].kind = "F")
                                          => now + 1 + P.tasks[t].dur <= P.H>> }

Tick ==
  /\ ~fin
  /\ AllTrue(TickClauses)
  /\ now' = now + 1
  /\ last' = 0
  /\ flash' = {}
  /\ prog' = [t \in T |-> IF st[t] = "running" /\ (Declarative \/ ~Interrupted(t, now))
                          THEN prog[t] + 1 ELSE prog[t]]
  /\ work' = [t \in T |-> IF st[t] = "running"
                          THEN work[t] + SumF([u \in BusyOf(t) |-> P.workers[P.uses[u].worker].prod], BusyOf(t))
                          ELSE work[t]]
  /\ load' = [c \in WorkLoadCons |->
                [i \in 1..Len(P.cons[c].intervals) |->
                   IF P.cons[c].intervals[i][1] <= now /\ now < P.cons[c].intervals[i][2]
                   THEN load[c][i] + Cardinality({ u \in UsesOfRes(P, P.cons[c].res) : ust[u] = "busy" })
                   ELSE load[c][i]]]
  /\ hist' = [b \in B |-> IF cnt[b] > 0 THEN Append(hist[b], <<now, level[b]>>) ELSE hist[b]]
  /\ cnt' = [b \in B |-> 0]
  /\ UNCHANGED <<pid, fin, sched, ap, st, ts, te, ust, ubs, ube, level, lv0>>

FinalHist == [b \in B |-> IF cnt[b] > 0 THEN Append(hist[b], <<now, level[b]>>) ELSE hist[b]]

FinishClauses ==
  { <<"G_all_done",      \A t \in T : st[t] \in {"done", "skipped"}>>,
    <<"G_horizon",       now <= P.H>>,
    <<"G_buffer_bounds", \A b \in B : BoundsOK(b)>>,
    <<"G_buffer_bounds_initial", \A b \in B : LvOK(b, lv0[b])>>,
    <<"G_final_level",   \A b \in B : Has(P.buffers[b].final) => level[b] = Val(P.buffers[b].final)>>,
    <<"G_workload",      Declarative \/
                         \A c \in WorkLoadCons : Binding(c) =>
                            \A i \in 1..Len(P.cons[c].intervals) :
                               CountOK(P.cons[c].kind, load[c][i], P.cons[c].intervals[i][3])>> }
  \cup
  { <<"G_constraint:" \o P.cons[c].name,
      (Binding(c) /\ (Declarative \/ P.cons[c].cls \notin OperationalCls)) => Holds(P, Schedule, P.cons[c])>> : c \in C }
  \cup
  { <<"G_indicator_constraint:" \o P.cons[c].name,
      (Binding(c) /\ P.cons[c].cls \in {"IndicatorTarget", "IndicatorBounds"})
         => IndConHolds(P, Schedule, FinalHist, lv0, P.cons[c])>> : c \in C }

Unspec == UNION { UnspecCon(P, Schedule, P.cons[c]) : c \in { d \in C : ap[d] } }
             \cup UnspecInd(P, Schedule)

Emit == PrintT(ToJson([pid |-> pid, sched |-> sched, s |-> ts, e |-> te,
                       used |-> [u \in U |-> ust[u] = "done"], bs |-> ubs, be |-> ube,
                       ap |-> ap, lv0 |-> lv0, hist |-> hist,
                       ind |-> IndValues(P, Schedule, hist, lv0),
                       unspec |-> SetToSeq(Unspec)]))

Finish ==
  /\ ~fin
  /\ Canonical => (last > 0 \/ now = 0)
  /\ AllTrue(FinishClauses)
  /\ fin' = TRUE
  /\ hist' = FinalHist
  /\ UNCHANGED <<pid, now, last, sched, ap, st, ts, te, prog, work, ust, ubs, ube,
                 flash, level, lv0, cnt, load>>

---------------------------------------------------------------------------
LvRange(b) == IF Has(P.buffers[b].initial) THEN {Val(P.buffers[b].initial)}
              ELSE P.buffers[b].init_lo .. P.buffers[b].init_hi
InitLevels == { f \in [B -> UNION { LvRange(b) : b \in B }] :
                   \A b \in B : f[b] \in LvRange(b) /\ LvOK(b, f[b]) }

Init ==
  /\ pid \in 1..Len(Problems)
  /\ now = 0 /\ last = 0 /\ fin = FALSE
  /\ sched \in { f \in [T -> BOOLEAN] : \A t \in T : ~P.tasks[t].optional => f[t] }
  /\ ap \in { f \in [C -> BOOLEAN] : \A c \in C : ~P.cons[c].optional => f[c] }
  /\ st = [t \in T |-> IF sched[t] THEN "pending" ELSE "skipped"]
  /\ ts = [t \in T |-> -1] /\ te = [t \in T |-> -1]
  /\ prog = [t \in T |-> 0] /\ work = [t \in T |-> 0]
  /\ ust = [u \in U |-> IF sched[P.uses[u].task] THEN "idle" ELSE "unused"]
  /\ ubs = [u \in U |-> -1] /\ ube = [u \in U |-> -1]
  /\ flash = {}
  /\ lv0 \in InitLevels
  /\ level = lv0
  /\ cnt = [b \in B |-> 0]
  /\ hist = [b \in B |-> <<>>]
  /\ load = [c \in WorkLoadCons |-> [i \in 1..Len(P.cons[c].intervals) |-> 0]]

\* one named disjunct per action, so that TLC's -coverage reports how often each one was taken
StartSome   == \E t \in T : \E pk \in PickSets(t) : Start(t, pk)
AcquireSome == \E u \in U : Acquire(u)
JoinSome    == \E u \in U : Join(u)
LeaveSome   == \E u \in U : Leave(u)
ReleaseSome == \E u \in U : Release(u)
EndSome     == \E t \in T : End(t)

Next ==
  \/ StartSome
  \/ AcquireSome \/ JoinSome \/ LeaveSome \/ ReleaseSome
  \/ EndSome
  \/ Tick
  \/ Finish

Spec == Init /\ [][Next]_vars

---------------------------------------------------------------------------
(* Properties checked on the machine itself (the listed properties,        *)
(* stated on the specification).                                           *)

\* C01
Inv_TaskTiming ==
  \A t \in T : st[t] = "done" =>
    LET tk == P.tasks[t] d == te[t] - ts[t] IN
    /\ ts[t] >= 0 /\ te[t] <= P.H /\ d >= 0
    /\ tk.kind = "F" => d = tk.dur
    /\ tk.kind = "Z" => d = 0
    /\ Has(tk.release) => ts[t] >= Val(tk.release)
    /\ (Has(tk.due) /\ tk.deadline) => te[t] <= Val(tk.due)
    /\ (tk.kind = "V" /\ CalCons(InterrCls) = {}) =>
          /\ d >= tk.min /\ (Has(tk.max) => d <= Val(tk.max))
          /\ Len(tk.allowed) > 0 => d \in SeqToSet(tk.allowed)

\* C02 (stated on the recorded intervals, independently of the guards)
DoneUses == { u \in U : ust[u] = "done" }
Inv_Capacity ==
  fin => \A u, v \in DoneUses :
           (u # v /\ P.uses[u].worker = P.uses[v].worker)
              => (ubs[v] >= ube[u] \/ ubs[u] >= ube[v])
Inv_CumulativeCapacity ==
  fin => \A k \in 1..Len(P.cumuls) : \A x \in 0..P.H :
           Cardinality({ u \in DoneUses : P.uses[u].worker \in SeqToSet(P.cumuls[k].units)
                                           /\ ubs[u] <= x /\ x < ube[u] }) <= P.cumuls[k].size
Inv_AssignmentInsideSpan ==
  \A u \in DoneUses : LET t == P.uses[u].task IN st[t] = "done" =>
    /\ ubs[u] <= ube[u] /\ ts[t] <= ubs[u] /\ ube[u] <= te[t]
    /\ ~P.uses[u].dynamic => (ubs[u] = ts[t] + P.uses[u].delay_in /\ ube[u] = te[t] - P.uses[u].early_out)
Inv_SelectionCount ==
  \A t \in T : st[t] = "done" => \A r \in ReqsOfTask(P, t) :
     LET done == { u \in UsesOfReq(P, r) : ust[u] = "done" } IN
     IF P.reqs[r].type = "worker" THEN Cardinality(done) = 1 ELSE PickOK(r, done)
Inv_WorkAmount ==
  \A t \in T : (st[t] = "done" /\ P.tasks[t].work > 0 /\ UsesOfTask(P, t) # {}) =>
     LET us == { u \in UsesOfTask(P, t) : ust[u] = "done" } IN
     SumF([u \in us |-> P.workers[P.uses[u].worker].prod * (ube[u] - ubs[u])], us) >= P.tasks[t].work

\* C03 / C04 / C10: at the end every binding constraint holds declaratively,
\* including the ones the machine enforced operationally
Inv_ConstraintsAtFinish ==
  fin => \A c \in C : Binding(c) => Holds(P, Schedule, P.cons[c])

\* C06: a task that is not scheduled is inert
Inv_SkippedIsInert ==
  \A t \in T : ~sched[t] =>
     /\ st[t] = "skipped" /\ ts[t] = -1 /\ te[t] = -1 /\ work[t] = 0
     /\ \A u \in UsesOfTask(P, t) : ust[u] = "unused" /\ ubs[u] = -1
SkipNeverActs == [][\A t \in T : ~sched[t] => UNCHANGED <<st[t], ts[t], te[t]>>]_vars

\* C09
Inv_BufferTrajectory ==
  fin => \A b \in B :
    LET h == hist[b]
        Delta(x) == SumF([t \in T |-> (IF st[t] = "done" /\ te[t] = x THEN Qty(b, t, "load") ELSE 0)
                                       - (IF st[t] = "done" /\ ts[t] = x THEN Qty(b, t, "unload") ELSE 0)], T)
    IN /\ \A i \in 1..Len(h) : h[i][2] = (IF i = 1 THEN lv0[b] ELSE h[i - 1][2]) + Delta(h[i][1])
       /\ \A i \in 1..(Len(h) - 1) : h[i][1] < h[i + 1][1]
       /\ \A i \in 1..Len(h) : (Has(P.buffers[b].lower) => h[i][2] >= Val(P.buffers[b].lower))
                                /\ (Has(P.buffers[b].upper) => h[i][2] <= Val(P.buffers[b].upper))
       /\ Has(P.buffers[b].final) => (IF Len(h) = 0 THEN lv0[b] ELSE h[Len(h)][2]) = Val(P.buffers[b].final)
       /\ ~P.buffers[b].concurrent =>
            \A x \in 0..P.H :
               Cardinality({ t \in T : st[t] = "done" /\ ts[t] = x /\ BufOps(b, t, "unload") # {} })
             + Cardinality({ t \in T : st[t] = "done" /\ te[t] = x /\ BufOps(b, t, "load") # {} }) <= 1

TypeOK ==
  /\ now \in 0..P.H
  /\ \A t \in T : st[t] \in {"pending", "running", "done", "skipped"}
  /\ \A u \in U : ust[u] \in {"idle", "waiting", "busy", "done", "unused"}

\* every complete behaviour is emitted exactly here
EmitAtFinish == fin => Emit
=============================================================================
