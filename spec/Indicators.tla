----------------------------- MODULE Indicators -----------------------------
(***************************************************************************)
(* The documented definition of every indicator (docs/indicator.md,        *)
(* docs/objectives.md, statement of C08), evaluated on a finished          *)
(* schedule S with buffer histories h and initial levels lv0.              *)
(* IndValue gives the pair <<lo, hi>> of admissible reported values        *)
(* (lo = hi except for the indicators that round: "to within integer       *)
(* rounding").                                                             *)
(***************************************************************************)
EXTENDS Semantics

FloorDiv(a, b) == a \div b                                   \* b > 0, TLC floors
CeilDiv(a, b)  == IF a % b = 0 THEN a \div b ELSE (a \div b) + 1

BusyTime(p, S, res) ==
  LET us == UsedOf(S, UsesOfRes(p, res))
  IN  SumF([u \in us |-> S.be[u] - S.bs[u]], us)

\* C(t) = a_n t^n + ... + a_1 t + a_0 with coefficients <<a_n, ..., a_0>> (docs/resource.md)
RECURSIVE Pow(_, _)
Pow(x, n) == IF n = 0 THEN 1 ELSE x * Pow(x, n - 1)
PolyAt(c, t) == SumF([i \in 1..Len(c) |-> c[i] * Pow(t, Len(c) - i)], 1..Len(c))

\* twice the cost accumulated over [a, b]: exact for constant and linear functions; for a polynomial
\* the library documents (comment in IndicatorResourceCost) the area of the trapeze between C(a) and C(b)
Cost2(f, a, b) ==
  CASE f.k = "const" -> 2 * f.c[1] * (b - a)
    [] f.k = "lin"   -> ((f.c[1] * a + f.c[2]) + (f.c[1] * b + f.c[2])) * (b - a)
    [] f.k = "poly"  -> (PolyAt(f.c, a) + PolyAt(f.c, b)) * (b - a)

Levels(h, lv0, b) == {lv0[b]} \cup { h[b][i][2] : i \in 1..Len(h[b]) }

IndValue(p, S, h, lv0, ind) ==
  CASE ind.cls = "IndicatorResourceUtilization" ->
         \* the percentage of THE horizon: the user's one; without a user horizon, the horizon the solution reports
         \* (S.hz, known when a reported solution is validated); while no horizon is known it can be anything from the
         \* last end onwards, which only bounds the value from above
         LET x == 100 * BusyTime(p, S, ind.res)
             lastEnd == MaxOf({0} \cup { S.e[t] : t \in SchedOf(S, Tasks(p)) })
         IN  IF "hz" \in DOMAIN S THEN (IF S.hz > 0 THEN <<FloorDiv(x, S.hz), CeilDiv(x, S.hz)>> ELSE <<0, 0>>)
             ELSE IF p.user_horizon THEN <<FloorDiv(x, p.H), CeilDiv(x, p.H)>>
             ELSE <<0, IF lastEnd > 0 THEN CeilDiv(x, lastEnd) ELSE 0>>
    [] ind.cls = "IndicatorNumberTasksAssigned" ->
         \* tasks, not units: a task holding two units of a cumulative worker counts once
         LET n == Cardinality({ p.uses[u].task : u \in UsedOf(S, UsesOfRes(p, ind.res)) }) IN <<n, n>>
    [] ind.cls = "IndicatorResourceCost" ->
         LET us == UNION { UsedOf(S, UsesOfRes(p, ind.ress[i])) : i \in 1..Len(ind.ress) }
             c2 == SumF([u \in us |-> Cost2(p.workers[p.uses[u].worker].cost, S.bs[u], S.be[u])], us)
         IN  <<FloorDiv(c2, 2), CeilDiv(c2, 2)>>
    [] ind.cls = "IndicatorResourceIdle" ->
         LET q == SortedUses(S, UsedOf(S, UsesOfRes(p, ind.res)))
             gaps == 1..(Len(q) - 1)
             v == SumF([i \in gaps |-> S.bs[q[i + 1]] - S.be[q[i]]], gaps)
         IN  <<v, v>>
    [] ind.cls = "IndicatorTardiness" ->
         LET ts == SchedOf(S, SeqToSet(ind.tasks))
             v == SumF([t \in ts |-> Max2(0, S.e[t] - Val(p.tasks[t].due))], ts)
         IN  <<v, v>>
    [] ind.cls = "IndicatorEarliness" ->
         LET ts == SchedOf(S, SeqToSet(ind.tasks))
             v == SumF([t \in ts |-> Max2(0, Val(p.tasks[t].due) - S.e[t])], ts)
         IN  <<v, v>>
    [] ind.cls = "IndicatorNumberOfTardyTasks" ->
         LET v == Cardinality({ t \in SchedOf(S, SeqToSet(ind.tasks)) : S.e[t] > Val(p.tasks[t].due) })
         IN  <<v, v>>
    [] ind.cls = "IndicatorMaximumLateness" ->
         LET ts == SchedOf(S, SeqToSet(ind.tasks))
             v == IF ts = {} THEN 0 ELSE MaxOf({ S.e[t] - Val(p.tasks[t].due) : t \in ts })
         IN  <<v, v>>
    [] ind.cls = "IndicatorFromMathExpression" ->
         LET v == EvalT(p, S, ind.expr) IN <<v, v>>
    [] ind.cls = "IndicatorMaxBufferLevel" ->
         LET v == MaxOf(Levels(h, lv0, ind.buffer)) IN <<v, v>>
    [] ind.cls = "IndicatorMinBufferLevel" ->
         LET v == MinOf(Levels(h, lv0, ind.buffer)) IN <<v, v>>
    \* indicators created by the built-in objectives
    [] ind.cls = "Flowtime" ->
         LET ts == SchedOf(S, SeqToSet(ind.tasks))
             v == SumF([t \in ts |-> S.e[t]], ts) IN <<v, v>>
    [] ind.cls = "TotalPriority" ->
         LET ts == SchedOf(S, SeqToSet(ind.tasks))
             v == SumF([t \in ts |-> S.e[t] * p.tasks[t].priority], ts) IN <<v, v>>
    [] ind.cls = "WeightedStartTimes" ->
         LET ts == SchedOf(S, SeqToSet(ind.tasks))
             v == SumF([t \in ts |-> S.s[t] * p.tasks[t].priority], ts) IN <<v, v>>
    [] ind.cls = "MinimumStartTime" ->
         LET ts == SchedOf(S, SeqToSet(ind.tasks))
             v == IF ts = {} THEN 0 ELSE MinOf({ S.s[t] : t \in ts }) IN <<v, v>>
    [] ind.cls = "GreatestStartTime" ->
         LET ts == SchedOf(S, SeqToSet(ind.tasks))
             v == IF ts = {} THEN 0 ELSE MaxOf({ S.s[t] : t \in ts }) IN <<v, v>>
    \* ObjectiveMinimizeFlowtimeSingleResource: span between the first start and the last end of the
    \* resource's busy intervals lying inside the window [lo, hi]; 0 when there is none
    [] ind.cls = "FlowtimeSingleResource" ->
         LET us == { u \in UsedOf(S, UsesOfRes(p, ind.res)) : S.bs[u] >= ind.lo /\ S.be[u] <= ind.hi }
             v == IF us = {} THEN 0 ELSE MaxOf({ S.be[u] : u \in us }) - MinOf({ S.bs[u] : u \in us })
         IN  <<v, v>>
    [] ind.cls = "Makespan" ->
         LET ts == SchedOf(S, Tasks(p))
             v == IF ts = {} THEN 0 ELSE MaxOf({ S.e[t] : t \in ts }) IN <<v, v>>

IndValues(p, S, h, lv0) == [i \in Inds(p) |-> IndValue(p, S, h, lv0, p.inds[i])]

RECURSIVE UnspecIndOne(_, _, _)

\* (weakest reading: a target / bound on an indicator that is in an open corner for S is not judged)
IndConHolds(p, S, h, lv0, c) ==
  LET r == IndValue(p, S, h, lv0, p.inds[c.ind]) IN
  CASE UnspecIndOne(p, S, p.inds[c.ind]) # {} -> TRUE
    [] c.cls = "IndicatorTarget" -> r[1] <= c.value /\ c.value <= r[2]
    [] c.cls = "IndicatorBounds" -> /\ Has(c.lower) => r[2] >= Val(c.lower)
                                    /\ Has(c.upper) => r[1] <= Val(c.upper)
    [] OTHER -> TRUE

\* corners the documentation leaves open
UnspecIndOne(p, S, ind) ==
  (IF ind.cls = "IndicatorResourceUtilization" /\ ~p.user_horizon /\ "hz" \notin DOMAIN S
   THEN {"utilisation-before-the-horizon-is-known"} ELSE {})
  \cup
  \* "the percentage of the horizon the resource is busy" / "idle time between a resource's tasks" have
  \* no agreed meaning for a resource that processes several tasks at once
  (IF ind.cls \in {"IndicatorResourceUtilization", "IndicatorResourceIdle", "FlowtimeSingleResource"}
      /\ ind.res.t = "cumul"
   THEN {"time-indicator-of-a-cumulative-worker"} ELSE {})
  \cup
  (IF ind.cls \in {"IndicatorMaximumLateness", "MinimumStartTime", "GreatestStartTime"}
      /\ \E t \in SeqToSet(ind.tasks) : ~S.sched[t]
   THEN {"extremum-indicator-with-unscheduled-task"} ELSE {})
  \cup
  \* docs/indicator.md: "Unweighted total tardiness"; the class docstring: "The weighted sum of total tardiness"
  (IF ind.cls = "IndicatorTardiness"
      /\ \E t \in SchedOf(S, SeqToSet(ind.tasks)) : p.tasks[t].priority # 1 /\ S.e[t] > Val(p.tasks[t].due)
   THEN {"tardiness-weighted-by-priority-or-not"} ELSE {})
  \cup
  (IF ind.cls = "IndicatorFromMathExpression" /\ Touches(p, S, ind.expr)
   THEN {"expression-over-unscheduled-task"} ELSE {})
  \cup
  (IF ind.cls = "IndicatorResourceIdle"
      /\ \E a, b \in UsedOf(S, UsesOfRes(p, ind.res)) : a # b /\ (S.bs[a] = S.bs[b] \/ S.be[a] = S.be[b])
   THEN {"resource-order-coinciding-times"} ELSE {})

UnspecInd(p, S) == UNION { UnspecIndOne(p, S, p.inds[i]) : i \in Inds(p) }
=============================================================================
