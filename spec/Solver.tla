------------------------------- MODULE Solver -------------------------------
(***************************************************************************)
(* The SchedulingSolver OBJECT as an honest oracle over the set of valid   *)
(* schedules (properties C07, C12, C13, C15, C19).                         *)
(*                                                                         *)
(* A scenario (JSON, $SCENARIO_FILE) describes one problem by its valid    *)
(* points: pts[w] = [s |-> schedule id, t |-> timing class (start/end/     *)
(* scheduled of every task), o |-> objective values, x |-> values of the   *)
(* tracked variables].  For problems enumerated by Timeline the points     *)
(* are exactly V(P) (one point per schedule and admissible objective       *)
(* value).  z3 is a black box that may return ANY allowed point: that is   *)
(* what "options change search order only" means.                          *)
(*                                                                         *)
(* Actions follow the code's critical sections one to one (solver.py:      *)
(* solve, _solve_optimize_incremental, find_another_solution*,             *)
(* initialize, export_to_smt2) so that recorded call traces bind.          *)
(* PopOnExit names the design decision that bounds pushed by the           *)
(* incremental loop do not outlive it; with PopOnExit = FALSE (the         *)
(* behaviour of the pinned commit) TLC produces the counterexample to      *)
(* C13 on the specification itself.                                        *)
(***************************************************************************)
EXTENDS Integers, Sequences, FiniteSets, TLC, Json, IOUtils

CONSTANTS PopOnExit, MaxCalls

Scenarios == JsonDeserialize(IOEnv.SCENARIO_FILE)

VARIABLES sid,      \* scenario
          init,     \* SchedulingSolver._initialized
          blocked,  \* points excluded for good by "differs from" assertions
          frames,   \* stack of pushed objective bounds ("strictly better than b")
          model,    \* current model (0 = none)
          pc,       \* "idle" | "plain" | "loop" | "found" | "exit" | "ret"
          call,     \* public call in progress
          inc,      \* incumbent of the running incremental loop (0 = none)
          incs,     \* objective values of all incumbents of the running loop
          iter,     \* num_iter
          stop,     \* why the loop stopped
          ret,      \* result of the last completed public call: 0 = False, w > 0, -1 = nothing yet
          seen,     \* timing classes returned so far by this solver
          pseen,    \* objective vectors returned so far (Pareto mode)
          ncalls,   \* number of public calls made
          definite, \* the last answer was definite (sat / unsat), not unknown or an early stop
          nsolve,   \* number of solve() calls so far
          reinit    \* initialize() was called again after a solve()

vars == <<sid, init, blocked, frames, model, pc, call, inc, incs, iter, stop, ret, seen, pseen, ncalls, definite, nsolve, reinit>>

Sc == Scenarios[sid]
W == 1..Len(Sc.pts)
Pt(w) == Sc.pts[w]

RECURSIVE Dot(_, _, _)
Dot(a, b, i) == IF i > Len(a) THEN 0 ELSE a[i] * b[i] + Dot(a, b, i + 1)
Val(w) == IF Len(Sc.weights) = 0 THEN 0 ELSE Dot(Sc.weights, Pt(w).o, 1)   \* scalar objective

Better(a, b) == IF Sc.dir = "min" THEN a < b ELSE a > b
NoWorse(a, b) == IF Sc.dir = "min" THEN a <= b ELSE a >= b

Remaining == W \ blocked                       \* what the permanent assertions still allow
Allowed == { w \in Remaining : \A i \in 1..Len(frames) : Better(Val(w), frames[i]) }
BestOf(S) == { w \in S : \A u \in S : NoWorse(Val(w), Val(u)) }

\* Pareto optimality for the built-in optimiser in 'pareto' mode (all objectives same direction)
Dominates(a, b) == /\ \A i \in 1..Len(Pt(a).o) : NoWorse(Pt(a).o[i], Pt(b).o[i])
                   /\ \E i \in 1..Len(Pt(a).o) : Better(Pt(a).o[i], Pt(b).o[i])
ParetoOf(S) == { w \in S : ~\E u \in S : Dominates(u, w) }
\* lexicographic optimum
RECURSIVE LexOf(_, _)
LexOf(S, i) == IF S = {} \/ i > Len(Sc.weights) THEN S
               ELSE LexOf({ w \in S : \A u \in S : NoWorse(Pt(w).o[i], Pt(u).o[i]) }, i + 1)

Optimising == Sc.dir # "none"
Incremental == Optimising /\ Sc.mode = "incremental"
Builtin == Optimising /\ Sc.mode = "optimize"

Single == Len(Sc.weights) <= 1
ParetoMode == Builtin /\ Sc.priority = "pareto" /\ ~Single

\* what a satisfiable check of the current solver may return
\* (optimality is only promised for solve() on the problem as declared: once "differs from" requests have
\*  been added, C13 asks for a valid schedule, not for an optimal one)
Candidates ==
  IF ~Builtin \/ blocked # {} THEN Allowed
  ELSE IF Single THEN BestOf(Allowed)              \* one objective: every priority mode optimises it
  ELSE CASE Sc.priority = "pareto" -> ParetoOf(Allowed)
         [] Sc.priority = "lex"    -> LexOf(Allowed, 1)
         [] Sc.priority = "weight" -> BestOf(Allowed)
         [] OTHER                  -> Allowed          \* box: any model (values are reported apart)
\* when an unsatisfiable answer is truthful (Pareto mode: the front has been walked)
\* Pareto mode (several objectives): successive checks walk the front and then fail by design; what z3
\* still answers once "differs from" clauses are added in between is not specified, so any unsatisfiable
\* answer after a first Pareto point is accepted (C13 excludes Pareto mode explicitly)
UnsatOK == IF ParetoMode THEN (pseen # {} \/ Allowed = {})
           ELSE Candidates = {}

Init ==
  /\ sid \in 1..Len(Scenarios)
  /\ init = FALSE /\ blocked = {} /\ frames = <<>> /\ model = 0
  /\ pc = "idle" /\ call = "none" /\ inc = 0 /\ incs = {} /\ iter = 0 /\ stop = "none"
  /\ ret = -1 /\ seen = {} /\ pseen = {} /\ ncalls = 0 /\ definite = TRUE /\ nsolve = 0 /\ reinit = FALSE

Begin(name) ==
  /\ pc = "idle" /\ ncalls < MaxCalls
  /\ ncalls' = ncalls + 1
  /\ call' = name
  /\ nsolve' = IF name = "solve" THEN nsolve + 1 ELSE nsolve
  /\ init' = TRUE
  /\ inc' = 0 /\ incs' = {} /\ iter' = 0 /\ stop' = "none" /\ definite' = TRUE
  /\ pc' = IF Incremental THEN "loop" ELSE "plain"

CallExport ==  \* export_to_smt2(): nothing but the lazy initialisation
  /\ pc = "idle" /\ ncalls < MaxCalls /\ ncalls' = ncalls + 1
  /\ init' = TRUE
  /\ UNCHANGED <<sid, blocked, frames, model, pc, call, inc, incs, iter, stop, ret, seen, pseen, definite, nsolve, reinit>>

\* an explicit initialize() builds a NEW z3 solver from the problem: the "differs from"
\* requests made so far are forgotten (the set of valid schedules is what it always was)
CallInitialize ==
  /\ pc = "idle" /\ ncalls < MaxCalls /\ ncalls' = ncalls + 1
  /\ init' = TRUE /\ blocked' = {} /\ frames' = <<>> /\ pseen' = {}
  /\ reinit' = (reinit \/ nsolve > 0)
  /\ UNCHANGED <<sid, model, pc, call, inc, incs, iter, stop, ret, seen, definite, nsolve>>

CallSolve ==
  /\ Begin("solve")
  /\ UNCHANGED <<sid, blocked, frames, model, ret, seen, pseen, reinit>>

CallFindAnother ==
  /\ model # 0                       \* otherwise the call raises
  /\ Begin("another")
  /\ blocked' = blocked \cup { w \in W : Pt(w).t = Pt(model).t }
  /\ UNCHANGED <<sid, frames, model, ret, seen, pseen, reinit>>

CallFindAnotherVar(x) ==
  /\ model # 0
  /\ Begin("another_var")
  /\ blocked' = blocked \cup { w \in W : Pt(w).x[x] = Pt(model).x[x] }
  /\ UNCHANGED <<sid, frames, model, ret, seen, pseen, reinit>>

\* ---- the plain path (no objective, or the built-in optimiser) ----
CheckSat(w) ==
  /\ pc = "plain" /\ w \in Candidates
  /\ model' = w /\ ret' = w /\ pc' = "ret"
  /\ UNCHANGED <<sid, init, blocked, frames, call, inc, incs, iter, stop, seen, pseen, ncalls, definite, nsolve, reinit>>

CheckUnsat ==
  /\ pc = "plain" /\ UnsatOK
  /\ ret' = 0 /\ pc' = "ret"
  /\ UNCHANGED <<sid, init, blocked, frames, model, call, inc, incs, iter, stop, seen, pseen, ncalls, definite, nsolve, reinit>>

CheckUnknown ==
  /\ pc = "plain" /\ Sc.unknown_ok
  /\ ret' = 0 /\ pc' = "ret" /\ definite' = FALSE
  /\ UNCHANGED <<sid, init, blocked, frames, model, call, inc, incs, iter, stop, seen, pseen, ncalls, nsolve, reinit>>

\* a logic that does not cover the problem may answer anything: such an answer is not definite
CheckUnsatOutsideFragment ==
  /\ pc = "plain" /\ Sc.outside_fragment
  /\ ret' = 0 /\ pc' = "ret" /\ definite' = FALSE
  /\ UNCHANGED <<sid, init, blocked, frames, model, call, inc, incs, iter, stop, seen, pseen, ncalls, nsolve, reinit>>

\* ---- the incremental optimiser ----
LoopMaxIter ==
  /\ pc = "loop" /\ Len(Sc.max_iter) > 0 /\ iter + 1 > Sc.max_iter[1]
  /\ iter' = iter + 1 /\ stop' = "max_iter" /\ pc' = "exit" /\ definite' = FALSE
  /\ UNCHANGED <<sid, init, blocked, frames, model, call, inc, incs, ret, seen, pseen, ncalls, nsolve, reinit>>

CanIterate == IF Len(Sc.max_iter) = 0 THEN TRUE ELSE iter + 1 <= Sc.max_iter[1]

LoopCheckSat(w) ==
  /\ pc = "loop" /\ CanIterate /\ w \in Allowed
  /\ iter' = iter + 1 /\ inc' = w /\ incs' = incs \cup {Val(w)} /\ pc' = "found"
  /\ UNCHANGED <<sid, init, blocked, frames, model, call, stop, ret, seen, pseen, ncalls, definite, nsolve, reinit>>

LoopCheckUnsat ==
  /\ pc = "loop" /\ CanIterate /\ Allowed = {}
  /\ iter' = iter + 1 /\ stop' = "unsat" /\ pc' = "exit"
  /\ UNCHANGED <<sid, init, blocked, frames, model, call, inc, incs, ret, seen, pseen, ncalls, definite, nsolve, reinit>>

LoopCheckUnknown ==
  /\ pc = "loop" /\ CanIterate /\ Sc.unknown_ok
  /\ iter' = iter + 1 /\ stop' = "unknown" /\ pc' = "exit" /\ definite' = FALSE
  /\ UNCHANGED <<sid, init, blocked, frames, model, call, inc, incs, ret, seen, pseen, ncalls, nsolve, reinit>>

LoopCheckUnsatOutsideFragment ==
  /\ pc = "loop" /\ CanIterate /\ Sc.outside_fragment
  /\ iter' = iter + 1 /\ stop' = "unknown" /\ pc' = "exit" /\ definite' = FALSE
  /\ UNCHANGED <<sid, init, blocked, frames, model, call, inc, incs, ret, seen, pseen, ncalls, nsolve, reinit>>

StopBound ==
  /\ pc = "found" /\ Len(Sc.bound) > 0 /\ Val(inc) = Sc.bound[1]
  /\ stop' = "bound" /\ pc' = "exit"
  /\ UNCHANGED <<sid, init, blocked, frames, model, call, inc, incs, iter, ret, seen, pseen, ncalls, definite, nsolve, reinit>>

StopTime ==  \* max_time exceeded / expected next time too long (only when the clock allows it)
  /\ pc = "found" /\ Sc.time_stops
  /\ stop' = "time" /\ pc' = "exit" /\ definite' = FALSE
  /\ UNCHANGED <<sid, init, blocked, frames, model, call, inc, incs, iter, ret, seen, pseen, ncalls, nsolve, reinit>>

PushBound ==
  /\ pc = "found"
  /\ frames' = Append(frames, Val(inc)) /\ pc' = "loop"
  /\ UNCHANGED <<sid, init, blocked, model, call, inc, incs, iter, stop, ret, seen, pseen, ncalls, definite, nsolve, reinit>>

PopFrame ==
  /\ pc = "exit" /\ Len(frames) > 0
  /\ frames' = SubSeq(frames, 1, Len(frames) - 1)
  /\ UNCHANGED <<sid, init, blocked, model, pc, call, inc, incs, iter, stop, ret, seen, pseen, ncalls, definite, nsolve, reinit>>

LoopExit ==
  /\ pc = "exit"
  /\ PopOnExit => frames = <<>>
  /\ ret' = inc /\ model' = IF inc # 0 THEN inc ELSE model
  /\ pc' = "ret"
  /\ UNCHANGED <<sid, init, blocked, frames, call, inc, incs, iter, stop, seen, pseen, ncalls, definite, nsolve, reinit>>

Return ==
  /\ pc = "ret"
  /\ pc' = "idle"
  /\ seen' = IF ret > 0 THEN seen \cup {Pt(ret).t} ELSE seen
  /\ pseen' = IF ret > 0 /\ ParetoMode THEN pseen \cup {Pt(ret).o} ELSE pseen
  /\ UNCHANGED <<sid, init, blocked, frames, model, call, inc, incs, iter, stop, ret, ncalls, definite, nsolve, reinit>>

\* named disjuncts (TLC -coverage reports how often each action was taken)
CallFindAnotherVarSome == \E x \in 1..Sc.nvars : CallFindAnotherVar(x)
CheckSatSome           == \E w \in W : CheckSat(w)
LoopCheckSatSome       == \E w \in W : LoopCheckSat(w)

Next ==
  \/ CallInitialize \/ CallExport \/ CallSolve \/ CallFindAnother
  \/ CallFindAnotherVarSome
  \/ CheckSatSome \/ LoopCheckSatSome
  \/ CheckUnsat \/ CheckUnknown \/ CheckUnsatOutsideFragment \/ LoopCheckUnsatOutsideFragment
  \/ LoopMaxIter \/ LoopCheckUnsat \/ LoopCheckUnknown
  \/ StopBound \/ StopTime \/ PushBound \/ PopFrame \/ LoopExit
  \/ Return

Spec == Init /\ [][Next]_vars
FairSpec == Spec /\ WF_vars(Next)

---------------------------------------------------------------------------
(* The listed properties, stated on the specification.                     *)

\* the moment a public call has determined its result (just before it returns)
Done == pc = "ret"
\* C13 (and C05 at the level of the object): a definite "no solution" is truthful
Prop_C13_FalseIsTruthful ==
  (Done /\ ret = 0 /\ definite /\ ~ParetoMode) => Remaining = {}
\* whatever is returned is a valid point that the permanent assertions still allow
Prop_C13_ReturnedIsValid ==
  (Done /\ ret > 0) => ret \in Remaining

\* C07: a completed optimisation returns a best point; an early stop returns a point no worse
\* than every incumbent found before
Prop_C07_Optimal ==
  (Done /\ Optimising /\ ret > 0 /\ definite /\ ~ParetoMode /\ (Builtin => (Single \/ Sc.priority = "weight")) /\ blocked = {})
     => ret \in BestOf(Remaining)
Prop_C07_NoWorseThanIncumbents ==
  (Done /\ Incremental /\ ret > 0) => \A v \in incs : NoWorse(Val(ret), v)
Prop_C07_EarlyStopStillValid ==
  (Done /\ Incremental /\ incs # {}) => ret > 0

\* C12: another solution differs in timing from everything returned before ...
\* (quantified, as the property is, over histories solve, find_another*: one solve() only)
Prop_C12_Distinct ==
  (pc = "ret" /\ call \in {"another", "another_var"} /\ ret > 0 /\ nsolve <= 1 /\ ~reinit) => Pt(ret).t \notin seen
\* ... and fails only when nothing else is left
Prop_C12_FailsOnlyWhenExhausted ==
  (Done /\ call = "another" /\ ret = 0 /\ definite /\ ~ParetoMode /\ ~reinit)
     => \A w \in W : Pt(w).t \in seen \/ w \in blocked
Prop_C12_VarDiffers ==
  (pc = "ret" /\ call = "another_var" /\ ret > 0) => ret \notin blocked

\* exhaustion (liveness): one solve(), then find_another_solution again and again: under weak fairness the
\* enumeration reaches a definite "no other solution" (bounded V: every timing class is visited once, then
\* the request fails).  Checked with SPECIFICATION LiveSpec (no state constraint; MaxCalls > number of
\* points + 2 in the configuration).
NextLive ==
  \/ (nsolve = 0 /\ CallSolve)
  \/ (nsolve = 1 /\ ret # 0 /\ CallFindAnother)
  \/ CheckSatSome \/ LoopCheckSatSome
  \/ CheckUnsat \/ LoopMaxIter \/ LoopCheckUnsat
  \/ StopBound \/ StopTime \/ PushBound \/ PopFrame \/ LoopExit
  \/ Return
LiveSpec == Init /\ [][NextLive]_vars /\ WF_vars(NextLive)
Exhausts == ParetoMode \/ <>(pc = "idle" /\ ret = 0)

TypeOK ==
  /\ pc \in {"idle", "plain", "loop", "found", "exit", "ret"}
  /\ blocked \subseteq W /\ model \in {0} \cup W /\ ret \in {-1, 0} \cup W
=============================================================================
