---------------------------- MODULE SolverTrace ----------------------------
(***************************************************************************)
(* Trace validation for the solver object: a recorded history of public    *)
(* calls on ONE SchedulingSolver, with every interaction the library had   *)
(* with z3 in between (recording proxy, harness/z3proxy.py), must be a     *)
(* behaviour of Solver, and every state of it must satisfy the listed      *)
(* properties.                                                             *)
(*                                                                         *)
(* $TRACE_FILE: list of [sid, events]; events                              *)
(*   [e |-> "call", name, x]      a public call begins                     *)
(*   [e |-> "check", r, w]        solver.check() answered r; for sat, w is *)
(*                                the point of the scenario the model      *)
(*                                projects on (-1: not a valid schedule)   *)
(*   [e |-> "push", b]            push() + add(objective better than b)    *)
(*   [e |-> "pop"]                                                         *)
(*   [e |-> "ret", w, raised]     the public call returned w (0 = False)   *)
(* Stops of the incremental loop that involve no z3 interaction (bound     *)
(* reached, time limit, max_iter) are inferred by TLC as silent steps.     *)
(***************************************************************************)
EXTENDS Solver, TLCExt, SequencesExt

Traces == JsonDeserialize(IOEnv.TRACE_FILE)

VARIABLES tid, l, verdict, why
tvars == <<vars, tid, l, verdict, why>>

Tr == Traces[tid]
N == Len(Tr.events)
E == Tr.events[l]
More == l <= N
Live == verdict = ""
Step == l' = l + 1 /\ UNCHANGED <<tid, verdict, why>>
Silent == UNCHANGED <<tid, l, verdict, why>>

TraceInit ==
  /\ tid \in 1..Len(Traces)
  /\ sid = Tr.sid
  /\ init = FALSE /\ blocked = {} /\ frames = <<>> /\ model = 0
  /\ pc = "idle" /\ call = "none" /\ inc = 0 /\ incs = {} /\ iter = 0 /\ stop = "none"
  /\ ret = -1 /\ seen = {} /\ pseen = {} /\ ncalls = 0 /\ definite = TRUE /\ nsolve = 0 /\ reinit = FALSE
  /\ l = 1 /\ verdict = "" /\ why = {}

TCall ==
  /\ More /\ E.e = "call"
  /\ CASE E.name = "solve"       -> CallSolve
       [] E.name = "another"     -> CallFindAnother
       [] E.name = "another_var" -> CallFindAnotherVar(E.x)
       [] E.name = "export"      -> CallExport
       [] OTHER                  -> CallInitialize
  /\ Step

TCheck ==
  /\ More /\ E.e = "check"
  /\ CASE E.r = "sat"   -> (E.w > 0 /\ (CheckSat(E.w) \/ LoopCheckSat(E.w)))
       [] E.r = "unsat" -> (CheckUnsat \/ LoopCheckUnsat \/ CheckUnsatOutsideFragment \/ LoopCheckUnsatOutsideFragment)
       [] OTHER         -> (CheckUnknown \/ LoopCheckUnknown)
  /\ Step

TPush == More /\ E.e = "push" /\ PushBound /\ frames'[Len(frames')] = E.b /\ Step
TPop  == More /\ E.e = "pop" /\ PopFrame /\ Step
TRet  == More /\ E.e = "ret" /\ ~E.raised /\ Return /\ ret = E.w /\ Step

\* silent steps, each bounded by the control state
TSilent == (StopBound \/ StopTime \/ LoopMaxIter \/ LoopExit) /\ Silent

Progress == TCall \/ TCheck \/ TPush \/ TPop \/ TRet \/ TSilent

Accept ==
  /\ Live /\ l = N + 1 /\ pc = "idle"
  /\ verdict' = "accept"
  /\ UNCHANGED <<vars, tid, l, why>>

Diagnose ==
  IF ~More THEN {"trace_ends_inside_a_call"}
  ELSE CASE E.e = "check" /\ E.r = "sat" /\ E.w < 0 -> {"returned_model_is_not_a_valid_schedule"}
         [] E.e = "check" /\ E.r = "sat" /\ E.w \in blocked -> {"returned_model_was_excluded_by_an_earlier_request"}
         [] E.e = "check" /\ E.r = "sat" /\ E.w \notin Allowed -> {"returned_model_is_not_better_than_the_pushed_bound"}
         [] E.e = "check" /\ E.r = "sat" -> {"returned_model_is_not_optimal_for_the_builtin_optimiser"}
         [] E.e = "check" /\ E.r = "unsat" -> {"unsat_although_an_allowed_valid_schedule_exists"}
         [] E.e = "check" -> {"unknown_answer_not_expected_in_this_configuration"}
         [] E.e = "ret" /\ E.raised -> {"call_must_return"}
         [] E.e = "ret" /\ pc = "found" -> {"incremental_loop_stopped_early_without_a_legal_reason"}
         [] E.e = "ret" -> {"returned_value_is_not_the_last_model"}
         [] E.e = "call" -> {"call_not_enabled"}
         [] OTHER -> {"event_not_enabled:" \o E.e}

Reject ==
  /\ Live
  /\ ~ENABLED Progress /\ ~ENABLED Accept
  /\ verdict' = "reject" /\ why' = Diagnose
  /\ UNCHANGED <<vars, tid, l>>

TraceNext == (Live /\ Progress) \/ Accept \/ Reject
TraceSpec == TraceInit /\ [][TraceNext]_tvars

\* the listed properties, evaluated in every state of every trace
Violated ==
  { n \in {"C13_false_is_truthful", "C13_returned_is_valid", "C07_optimal", "C07_no_worse_than_incumbents",
           "C07_early_stop_still_valid", "C12_distinct", "C12_fails_only_when_exhausted", "C12_variable_differs"} :
      CASE n = "C13_false_is_truthful" -> ~Prop_C13_FalseIsTruthful
        [] n = "C13_returned_is_valid" -> ~Prop_C13_ReturnedIsValid
        [] n = "C07_optimal" -> ~Prop_C07_Optimal
        [] n = "C07_no_worse_than_incumbents" -> ~Prop_C07_NoWorseThanIncumbents
        [] n = "C07_early_stop_still_valid" -> ~Prop_C07_EarlyStopStillValid
        [] n = "C12_distinct" -> ~Prop_C12_Distinct
        [] n = "C12_fails_only_when_exhausted" -> ~Prop_C12_FailsOnlyWhenExhausted
        [] n = "C12_variable_differs" -> ~Prop_C12_VarDiffers }

EmitVerdict ==
  /\ verdict # "" => PrintT(ToJson([tid |-> tid, verdict |-> verdict, l |-> l, why |-> SetToSeq(why)]))
  /\ Violated # {} => PrintT(ToJson([tid |-> tid, verdict |-> "violates", l |-> l, why |-> SetToSeq(Violated)]))
=============================================================================
