SPECIFICATION Spec
CONSTANTS
  Mode = "order"
CHECK_DEADLOCK FALSE
INVARIANT Inv_OrderIrrelevant
INVARIANT Emit
