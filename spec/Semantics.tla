----------------------------- MODULE Semantics -----------------------------
(***************************************************************************)
(* Declarative reading of every constraint class, written from             *)
(* docs/task_constraints.md, docs/resource_constraints.md,                 *)
(* docs/first_order_logic_constraints.md and the statements of C03, C04,   *)
(* C06 and C10 -- not from the encoders.                                   *)
(*                                                                         *)
(* A finished schedule is a record                                         *)
(*   S = [sched, s, e : per task;  used, bs, be : per use;  ap : per       *)
(*        constraint]                                                      *)
(* Holds(p, S, c) is the LAX reading (what a schedule may be);             *)
(* UnspecCon(p, S, c) names the corners in which the documentation does    *)
(* not settle the meaning -- a schedule touching one is not required to    *)
(* be admitted by the implementation (see Unspecified corners in           *)
(* DESIGN.md section 5).                                                   *)
(***************************************************************************)
EXTENDS Problem, TLC, SequencesExt

---------------------------------------------------------------------------
(* raw expressions over the documented task variables                      *)
RECURSIVE EvalT(_, _, _), EvalB(_, _, _), Touches(_, _, _)

EvalT(p, S, x) ==
  CASE x.op = "const" -> x.v
    [] x.op = "start" -> S.s[x.task]
    [] x.op = "end"   -> S.e[x.task]
    [] x.op = "dur"   -> S.e[x.task] - S.s[x.task]
    [] x.op = "add"   -> EvalT(p, S, x.a) + EvalT(p, S, x.b)
    [] x.op = "sub"   -> EvalT(p, S, x.a) - EvalT(p, S, x.b)
    [] x.op = "mul"   -> x.k * EvalT(p, S, x.a)

EvalB(p, S, x) ==
  CASE x.op \in {"true", "pytrue"}   -> TRUE      \* py*: given as a plain Python bool instead of a z3 expression
    [] x.op \in {"false", "pyfalse"} -> FALSE
    [] x.op = "le"    -> EvalT(p, S, x.a) <= EvalT(p, S, x.b)
    [] x.op = "lt"    -> EvalT(p, S, x.a) <  EvalT(p, S, x.b)
    [] x.op = "ge"    -> EvalT(p, S, x.a) >= EvalT(p, S, x.b)
    [] x.op = "gt"    -> EvalT(p, S, x.a) >  EvalT(p, S, x.b)
    [] x.op = "eq"    -> EvalT(p, S, x.a) =  EvalT(p, S, x.b)
    [] x.op = "ne"    -> EvalT(p, S, x.a) #  EvalT(p, S, x.b)
    [] x.op = "sched" -> S.sched[x.task]
    [] x.op = "not"   -> ~EvalB(p, S, x.x)
    [] x.op = "and"   -> \A i \in 1..Len(x.xs) : EvalB(p, S, x.xs[i])
    [] x.op = "or"    -> \E i \in 1..Len(x.xs) : EvalB(p, S, x.xs[i])

\* does the expression read a time of a task that is not scheduled?
Touches(p, S, x) ==
  CASE x.op \in {"start", "end", "dur"} -> ~S.sched[x.task]
    [] x.op \in {"add", "sub", "le", "lt", "ge", "gt", "eq", "ne"}
                      -> Touches(p, S, x.a) \/ Touches(p, S, x.b)
    [] x.op = "mul"   -> Touches(p, S, x.a)
    [] x.op = "not"   -> Touches(p, S, x.x)
    [] x.op \in {"and", "or"} -> \E i \in 1..Len(x.xs) : Touches(p, S, x.xs[i])
    [] OTHER -> FALSE

---------------------------------------------------------------------------
(* helpers                                                                 *)
AllSched(S, ts) == \A t \in ts : S.sched[t]
SchedOf(S, ts)  == { t \in ts : S.sched[t] }

Rel(kind, a, b) == CASE kind = "lax"    -> a <= b
                     [] kind = "strict" -> a <  b
                     [] kind = "tight"  -> a =  b

\* tasks sorted by (start, end, index)
TaskLess(S, a, b) == \/ S.s[a] < S.s[b]
                     \/ S.s[a] = S.s[b] /\ S.e[a] < S.e[b]
                     \/ S.s[a] = S.s[b] /\ S.e[a] = S.e[b] /\ a < b
SortedTasks(S, ts) == SortSeq(SetToSeq(ts), LAMBDA a, b : TaskLess(S, a, b))

\* used uses sorted by (busy start, busy end, index)
UseLess(S, a, b) == \/ S.bs[a] < S.bs[b]
                    \/ S.bs[a] = S.bs[b] /\ S.be[a] < S.be[b]
                    \/ S.bs[a] = S.bs[b] /\ S.be[a] = S.be[b] /\ a < b
SortedUses(S, us) == SortSeq(SetToSeq(us), LAMBDA a, b : UseLess(S, a, b))
UsedOf(S, us) == { u \in us : S.used[u] }

InSome(ivs, a, b) == \E i \in 1..Len(ivs) : a >= ivs[i][1] /\ b <= ivs[i][2]
NumIn(ivs, a, b)  == Cardinality({ i \in 1..Len(ivs) : a >= ivs[i][1] /\ b <= ivs[i][2] })

\* periodic calendars: is the unit period [k, k+1) inside a repeated window?
Active(c, k) == k >= c.start /\ (Has(c.end) => k < Val(c.end))
InWindow(c, k) == \E i \in 1..Len(c.intervals) :
                     LET f == (k - c.offset) % c.period
                     IN  c.intervals[i][1] <= f /\ f < c.intervals[i][2]
PeriodicHit(c, k) == Active(c, k) /\ InWindow(c, k)
\* one-off calendars
OneOffHit(c, k) == \E i \in 1..Len(c.intervals) :
                      c.intervals[i][1] <= k /\ k < c.intervals[i][2]
CalHit(c, k) == IF c.cls \in {"ResourcePeriodicallyUnavailable", "ResourcePeriodicallyInterrupted"}
                THEN PeriodicHit(c, k) ELSE OneOffHit(c, k)
HitCount(c, a, b) == Cardinality({ k \in a..(b - 1) : CalHit(c, k) })

Picked(p, S, r) == { p.uses[u].worker : u \in UsedOf(S, UsesOfReq(p, r)) }

---------------------------------------------------------------------------
RECURSIVE Holds(_, _, _), HoldsOp(_, _, _), OpOpen(_, _, _), UnspecCon(_, _, _)

\* the bound of a single-task constraint: an integer, or (value: Union[int, z3.ArithRef]) an expression over
\* the times of other tasks (field vexpr)
BoundOf(p, S, c) == IF "vexpr" \in DOMAIN c THEN EvalT(p, S, c.vexpr) ELSE c.value

HoldsOp(p, S, o) == IF o.t = "con" THEN Holds(p, S, p.cons[o.i])
                    ELSE EvalB(p, S, o.e)

Holds(p, S, c) ==
  CASE c.cls = "TaskStartAt" ->
         S.sched[c.task] => S.s[c.task] = BoundOf(p, S, c)
    [] c.cls = "TaskStartAfter" ->
         S.sched[c.task] => IF c.kind = "strict" THEN S.s[c.task] > BoundOf(p, S, c)
                                                 ELSE S.s[c.task] >= BoundOf(p, S, c)
    [] c.cls = "TaskEndAt" ->
         S.sched[c.task] => S.e[c.task] = BoundOf(p, S, c)
    [] c.cls = "TaskEndBefore" ->
         S.sched[c.task] => IF c.kind = "strict" THEN S.e[c.task] < BoundOf(p, S, c)
                                                 ELSE S.e[c.task] <= BoundOf(p, S, c)
    [] c.cls = "TaskPrecedence" ->
         \* either side may be a task group (before_g / after_g: index of the group constraint): the whole
         \* group, i.e. every scheduled member, lies before / after
         LET bs == IF "before_g" \in DOMAIN c /\ c.before_g > 0 THEN SchedOf(S, SeqToSet(p.cons[c.before_g].tasks))
                   ELSE IF S.sched[c.before] THEN {c.before} ELSE {}
             as == IF "after_g" \in DOMAIN c /\ c.after_g > 0 THEN SchedOf(S, SeqToSet(p.cons[c.after_g].tasks))
                   ELSE IF S.sched[c.after] THEN {c.after} ELSE {}
         IN  (bs # {} /\ as # {})
               => Rel(c.kind, MaxOf({ S.e[t] : t \in bs }) + c.offset, MinOf({ S.s[t] : t \in as }))
    [] c.cls = "TasksStartSynced" ->
         (S.sched[c.t1] /\ S.sched[c.t2]) => S.s[c.t1] = S.s[c.t2]
    [] c.cls = "TasksEndSynced" ->
         (S.sched[c.t1] /\ S.sched[c.t2]) => S.e[c.t1] = S.e[c.t2]
    [] c.cls = "TasksDontOverlap" ->
         (S.sched[c.t1] /\ S.sched[c.t2])
            => (S.s[c.t2] >= S.e[c.t1] \/ S.s[c.t1] >= S.e[c.t2])
    [] c.cls = "TasksContiguous" ->
         LET ts == SchedOf(S, SeqToSet(c.tasks))
             q == SortedTasks(S, ts)
         IN  \* what "contiguous" means for a zero-length member is an unspecified corner (UnspecCon)
             (\E t \in ts : S.s[t] = S.e[t]) \/ \A i \in 1..(Len(q) - 1) : S.s[q[i + 1]] = S.e[q[i]]
    [] c.cls \in {"UnorderedTaskGroup", "OrderedTaskGroup"} ->
         LET ts == SchedOf(S, SeqToSet(c.tasks))
         IN  /\ Has(c.interval) =>
                  \A t \in ts : S.s[t] >= Val(c.interval)[1] /\ S.e[t] <= Val(c.interval)[2]
             /\ (~Has(c.interval) /\ Has(c.length) /\ ts # {}) =>
                  MaxOf({ S.e[t] : t \in ts }) - MinOf({ S.s[t] : t \in ts }) <= Val(c.length)
             /\ c.cls = "OrderedTaskGroup" =>
                  \* neighbours in the declared list, when both are scheduled (the order
                  \* across an unscheduled member is an unspecified corner, see UnspecCon)
                  \A i \in 1..(Len(c.tasks) - 1) :
                     (S.sched[c.tasks[i]] /\ S.sched[c.tasks[i + 1]])
                        => Rel(c.kind, S.e[c.tasks[i]], S.s[c.tasks[i + 1]])
    [] c.cls = "ScheduleNTasksInTimeIntervals" ->
         LET inside == { t \in SchedOf(S, SeqToSet(c.tasks)) : InSome(c.intervals, S.s[t], S.e[t]) }
         IN  CountOK(c.kind, Cardinality(inside), c.n)
    [] c.cls = "OptionalTaskForceSchedule" ->
         S.sched[c.task] = c.flag
    [] c.cls = "OptionalTaskConditionSchedule" ->
         S.sched[c.task] = EvalB(p, S, c.cond)
    [] c.cls = "OptionalTasksDependency" ->
         S.sched[c.t1] => S.sched[c.t2]
    [] c.cls = "ForceScheduleNOptionalTasks" ->
         CountOK(c.kind, Cardinality(SchedOf(S, SeqToSet(c.tasks))), c.n)
    \* ---- resource constraints
    [] c.cls = "WorkLoad" ->
         LET us == UsedOf(S, UsesOfRes(p, c.res))
         IN  \A i \in 1..Len(c.intervals) :
               LET iv == c.intervals[i]
                   busy == SumF([u \in us |-> Overlap(S.bs[u], S.be[u], iv[1], iv[2])], us)
               IN  CountOK(c.kind, busy, iv[3])
    [] c.cls \in {"ResourceUnavailable", "ResourcePeriodicallyUnavailable"} ->
         \A u \in UsedOf(S, UsesOfRes(p, c.res)) : HitCount(c, S.bs[u], S.be[u]) = 0
    [] c.cls \in {"ResourceInterrupted", "ResourcePeriodicallyInterrupted"} ->
         \A u \in UsedOf(S, UsesOfRes(p, c.res)) :
           LET t == p.uses[u].task
               tk == p.tasks[t]
               own == HitCount(c, S.bs[u], S.be[u])
               \* the task makes no progress while ANY interruption calendar of its worker is active: the
               \* lengthening counts the instants hit by some applied top-level interruption constraint
               others == { d \in 1..Len(p.cons) :
                             /\ p.cons[d].cls \in {"ResourceInterrupted", "ResourcePeriodicallyInterrupted"}
                             /\ p.cons[d].top /\ S.ap[d]
                             /\ p.uses[u].worker \in UnitsOf(p, p.cons[d].res) }
               At(k) == IF c.top THEN \E d \in others : CalHit(p.cons[d], k) ELSE CalHit(c, k)
               hit == Cardinality({ k \in S.bs[u]..(S.be[u] - 1) : At(k) })
           IN  IF tk.kind # "V" THEN own = 0
               ELSE \* a variable task may span interruptions but neither starts nor
                    \* ends strictly inside one, and is lengthened by the overlapped time
                    /\ ~(At(S.bs[u]) /\ S.bs[u] > 0 /\ At(S.bs[u] - 1))
                    /\ ~(At(S.be[u]) /\ S.be[u] > 0 /\ At(S.be[u] - 1))
                    /\ (S.e[t] - S.s[t]) - hit >= tk.min
                    /\ Has(tk.max) => (S.e[t] - S.s[t]) - hit <= Val(tk.max)
    [] c.cls = "ResourceNonDelay" ->
         LET q == SortedUses(S, UsedOf(S, UsesOfRes(p, c.res)))
         IN  \A i \in 1..(Len(q) - 1) : S.bs[q[i + 1]] = S.be[q[i]]
    [] c.cls = "ResourceTasksDistance" ->
         LET q == SortedUses(S, UsedOf(S, UsesOfRes(p, c.res)))
         IN  \A i \in 1..(Len(q) - 1) :
               LET a == S.be[q[i]]
                   b == S.bs[q[i + 1]]
                   applies == IF c.has_intervals
                              THEN \E j \in 1..Len(c.intervals) :
                                      /\ a >= c.intervals[j][1] /\ a <= c.intervals[j][2]
                                      /\ b >= c.intervals[j][1] /\ b <= c.intervals[j][2]
                              ELSE TRUE
               IN  applies => (CASE c.mode = "exact" -> b - a = c.distance
                                 [] c.mode = "min"   -> b - a >= c.distance
                                 [] c.mode = "max"   -> b - a <= c.distance)
    [] c.cls = "SameWorkers" ->
         LET common == SeqToSet(p.selects[p.reqs[c.r1].ref].workers)
                         \cap SeqToSet(p.selects[p.reqs[c.r2].ref].workers)
         IN  (S.sched[p.reqs[c.r1].task] /\ S.sched[p.reqs[c.r2].task]) =>
               Picked(p, S, c.r1) \cap common = Picked(p, S, c.r2) \cap common
    [] c.cls = "DistinctWorkers" ->
         (S.sched[p.reqs[c.r1].task] /\ S.sched[p.reqs[c.r2].task]) =>
            Picked(p, S, c.r1) \cap Picked(p, S, c.r2) = {}
    \* ---- logic
    [] c.cls = "ConstraintFromExpression" -> EvalB(p, S, c.expr)
    \* Holds is the WEAKEST reading in a corner the documentation leaves open (UnspecCon); under a negation
    \* the weakest reading of the combination takes the operand's strongest one: an operand that is in an
    \* open corner (OpOpen) may count as false as well as true
    [] c.cls = "Not" -> ~HoldsOp(p, S, c.x) \/ OpOpen(p, S, c.x)
    [] c.cls = "And" -> \A i \in 1..Len(c.xs) : HoldsOp(p, S, c.xs[i])
    [] c.cls = "Or"  -> \E i \in 1..Len(c.xs) : HoldsOp(p, S, c.xs[i])
    [] c.cls = "Xor" -> (HoldsOp(p, S, c.x) # HoldsOp(p, S, c.y)) \/ OpOpen(p, S, c.x) \/ OpOpen(p, S, c.y)
    [] c.cls = "Implies" ->
         EvalB(p, S, c.cond) => \A i \in 1..Len(c.xs) : HoldsOp(p, S, c.xs[i])
    [] c.cls = "IfThenElse" ->
         IF EvalB(p, S, c.cond) THEN \A i \in 1..Len(c.xs) : HoldsOp(p, S, c.xs[i])
                                ELSE \A i \in 1..Len(c.ys) : HoldsOp(p, S, c.ys[i])
    [] c.cls = "ForceApplyNOptionalConstraints" ->
         CountOK(c.kind, Cardinality({ i \in SeqToSet(c.cons) : S.ap[i] }), c.n)
    \* buffer registrations and indicator constraints are decided by the machine
    [] OTHER -> TRUE

---------------------------------------------------------------------------
(* Unspecified corners, per constraint (reasons are reported in V lines)   *)
RECURSIVE OpTouches(_, _, _)
OpTouches(p, S, o) == IF o.t = "expr" THEN Touches(p, S, o.e) ELSE FALSE

UnspecCon(p, S, c) ==
  CASE c.cls = "TasksDontOverlap" ->
         \* docs say "or", two zero-length tasks at one instant satisfy both sides
         IF /\ S.sched[c.t1] /\ S.sched[c.t2]
            /\ S.s[c.t2] >= S.e[c.t1] /\ S.s[c.t1] >= S.e[c.t2]
         THEN {"dontoverlap-both-sides"} ELSE {}
    [] c.cls = "TasksContiguous" ->
         LET ts == SchedOf(S, SeqToSet(c.tasks))
         IN  (IF \E a, b \in ts : a # b /\ (S.s[a] = S.s[b] \/ S.e[a] = S.e[b])
              THEN {"contiguous-coinciding-times"} ELSE {})
             \cup (IF \E t \in ts : S.s[t] = S.e[t] THEN {"contiguous-zero-length-member"} ELSE {})
    [] c.cls = "OrderedTaskGroup" ->
         \* an unscheduled member between two scheduled ones: is the order transitive?
         IF \E i, j, k \in 1..Len(c.tasks) : i < j /\ j < k /\ S.sched[c.tasks[i]]
                                               /\ ~S.sched[c.tasks[j]] /\ S.sched[c.tasks[k]]
         THEN {"ordered-group-skipped-member-in-between"} ELSE {}
    [] c.cls = "ScheduleNTasksInTimeIntervals" ->
         \* (a task lying in two overlapping intervals is ONE task: the statement counts tasks)
         \* a task that overlaps an interval without lying inside it: the documentation only speaks of
         \* the tasks "in" the intervals (the implementation keeps the other tasks entirely outside)
         (IF \E t \in SchedOf(S, SeqToSet(c.tasks)) : \E i \in 1..Len(c.intervals) :
                /\ ~(S.s[t] >= c.intervals[i][1] /\ S.e[t] <= c.intervals[i][2])
                /\ S.s[t] < c.intervals[i][2] /\ S.e[t] > c.intervals[i][1]
          THEN {"ntasks-task-straddles-interval"} ELSE {})
    [] c.cls = "OptionalTasksDependency" ->
         \* docs: implication; docstring: equivalence
         IF S.sched[c.t2] /\ ~S.sched[c.t1] THEN {"dependency-iff-or-implies"} ELSE {}
    [] c.cls \in {"TaskStartAt", "TaskStartAfter", "TaskEndAt", "TaskEndBefore"} ->
         \* a symbolic bound that reads a time of a task that is not scheduled
         IF "vexpr" \in DOMAIN c /\ S.sched[c.task] /\ Touches(p, S, c.vexpr)
         THEN {"expression-over-unscheduled-task"} ELSE {}
    [] c.cls = "OptionalTaskConditionSchedule" ->
         IF Touches(p, S, c.cond) THEN {"expression-over-unscheduled-task"} ELSE {}
    [] c.cls = "ConstraintFromExpression" ->
         IF Touches(p, S, c.expr) THEN {"expression-over-unscheduled-task"} ELSE {}
    [] c.cls \in {"ResourceUnavailable", "ResourceInterrupted"} ->
         \* zero-length use strictly inside a calendar interval
         IF \E u \in UsedOf(S, UsesOfRes(p, c.res)) :
               /\ S.bs[u] = S.be[u]
               /\ \E i \in 1..Len(c.intervals) :
                     c.intervals[i][1] < S.bs[u] /\ S.bs[u] < c.intervals[i][2]
         THEN {"zero-length-use-inside-calendar-interval"} ELSE {}
    [] c.cls \in {"ResourcePeriodicallyUnavailable", "ResourcePeriodicallyInterrupted"} ->
         LET us == UsedOf(S, UsesOfRes(p, c.res))
         IN  (IF \E u \in us : S.bs[u] = S.be[u] /\ S.bs[u] > 0
                                 /\ InWindow(c, S.bs[u]) /\ InWindow(c, S.bs[u] - 1)
              THEN {"zero-length-use-inside-calendar-interval"} ELSE {})
             \cup
             (IF \E u \in us : \/ S.bs[u] < c.start /\ c.start < S.be[u]
                               \/ Has(c.end) /\ S.bs[u] < Val(c.end) /\ Val(c.end) < S.be[u]
              THEN {"use-straddles-activity-boundary"} ELSE {})
    [] c.cls \in {"ResourceNonDelay", "ResourceTasksDistance"} ->
         LET us == UsedOf(S, UsesOfRes(p, c.res))
         IN  IF \E a, b \in us : a # b /\ (S.bs[a] = S.bs[b] \/ S.be[a] = S.be[b])
             THEN {"resource-order-coinciding-times"} ELSE {}
    [] c.cls = "Not" ->
         (IF OpTouches(p, S, c.x) THEN {"expression-over-unscheduled-task"} ELSE {})
         \cup (IF OpOpen(p, S, c.x) THEN {"negated-operand-in-open-corner"} ELSE {})
    [] c.cls = "Xor" ->
         (IF OpTouches(p, S, c.x) \/ OpTouches(p, S, c.y) THEN {"expression-over-unscheduled-task"} ELSE {})
         \cup (IF OpOpen(p, S, c.x) \/ OpOpen(p, S, c.y) THEN {"negated-operand-in-open-corner"} ELSE {})
    [] OTHER -> {}

\* the operands of a logical combination
OperandsOf(c) ==
  CASE c.cls = "Not" -> <<c.x>>
    [] c.cls = "Xor" -> <<c.x, c.y>>
    [] c.cls \in {"And", "Or", "Implies"} -> c.xs
    [] c.cls = "IfThenElse" -> c.xs \o c.ys
    [] OTHER -> <<>>

\* the operand, or something inside it, is in a corner the documentation leaves open for schedule S
OpOpen(p, S, o) ==
  IF o.t = "expr" THEN Touches(p, S, o.e)
  ELSE LET c == p.cons[o.i]
       IN  UnspecCon(p, S, c) # {} \/ \E i \in 1..Len(OperandsOf(c)) : OpOpen(p, S, OperandsOf(c)[i])
=============================================================================
