SPECIFICATION Spec
CONSTANTS
  PopOnExit = FALSE
  MaxCalls = 3
CHECK_DEADLOCK FALSE
INVARIANT Prop_C13_FalseIsTruthful
